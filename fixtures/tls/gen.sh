#!/bin/sh
# One-off generation of the TLS fixtures (committed; not run by the checks).
set -e
D=36500
VALID="-not_before 20200101000000Z -not_after 21200101000000Z"
openssl ecparam -name prime256v1 -genkey -noout -out ca.key
openssl req -new -key ca.key -subj "/CN=hdv test CA" -out ca.csr
printf "basicConstraints=critical,CA:TRUE\nkeyUsage=critical,keyCertSign,cRLSign\n" > ca.ext
openssl x509 -req -in ca.csr -signkey ca.key -sha256 $VALID -extfile ca.ext -out ca.pem; rm -f ca.csr ca.ext
openssl ecparam -name prime256v1 -genkey -noout -out ca2.key
openssl req -new -key ca2.key -subj "/CN=hdv untrusted CA" -out ca2.csr
printf "basicConstraints=critical,CA:TRUE\nkeyUsage=critical,keyCertSign,cRLSign\n" > ca2.ext
openssl x509 -req -in ca2.csr -signkey ca2.key -sha256 $VALID -extfile ca2.ext -out ca2.pem; rm -f ca2.csr ca2.ext
leaf() { # name san ca days
  openssl ecparam -name prime256v1 -genkey -noout -out $1.ec.key
  openssl pkcs8 -topk8 -nocrypt -in $1.ec.key -out $1.key
  openssl req -new -key $1.key -subj "/CN=$1" -out $1.csr
  printf "subjectAltName=$2\nbasicConstraints=CA:FALSE\nkeyUsage=digitalSignature\nextendedKeyUsage=serverAuth\n" > $1.ext
  openssl x509 -req -in $1.csr -CA $3.pem -CAkey $3.key -CAcreateserial -sha256 $VALID -extfile $1.ext -out $1.pem
  rm -f $1.csr $1.ext $1.ec.key
}
leaf good "DNS:example.com,DNS:EXAMPLE.test,DNS:a.test,DNS:b.test,DNS:localhost,DNS:xn--nxasmq6b.example,DNS:under_score.test,IP:127.0.0.1,IP:::1,IP:::ffff:127.0.0.1" ca $D
leaf wrongname "DNS:other.test" ca $D
leaf untrusted "DNS:example.com,DNS:a.test,IP:127.0.0.1" ca2 $D
# expired: valid for one day in 2020
openssl ecparam -name prime256v1 -genkey -noout -out expired.ec.key
openssl pkcs8 -topk8 -nocrypt -in expired.ec.key -out expired.key
openssl req -new -key expired.key -subj "/CN=expired" -out expired.csr
printf "subjectAltName=DNS:example.com,DNS:a.test\nbasicConstraints=CA:FALSE\n" > expired.ext
openssl x509 -req -in expired.csr -CA ca.pem -CAkey ca.key -CAcreateserial -sha256 -not_before 20200101000000Z -not_after 20200102000000Z -extfile expired.ext -out expired.pem 2>/dev/null || \
  faketime=1 openssl x509 -req -in expired.csr -CA ca.pem -CAkey ca.key -CAcreateserial -sha256 -days 1 -extfile expired.ext -out expired.pem
rm -f expired.csr expired.ext expired.ec.key *.srl
