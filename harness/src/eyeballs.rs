//! C10 / C11 — happy-eyeballs result and pacing, in deterministic virtual time.
//!
//! The real `EyeballSet` (hook re-export) is fed scripted attempts that record
//! first-poll / completion / drop times from the paused tokio clock. An
//! independent event-driven reference of the *stated* behaviour predicts the
//! result, the finish time and every start time; cases in which two events
//! coincide in the same virtual millisecond are classified as ties and only
//! judged on the order-independent part.

use std::sync::{Arc, Mutex};
use std::time::Duration;

use hyperdriver::verif_hooks::{EyeballSet, HappyEyeballsError};
use rand::rngs::StdRng;
use rand::{Rng, SeedableRng};
use serde_json::{json, Value};
use tokio::time::Instant;

use crate::report::{hash_of, Args, PropReport, Report};

const RULE10: &str = "scripted attempt sets: each attempt (ok|err|never) x latency grid {0,10,20,35,50,100}ms, delay in {None,0,15,40}, timeout in {None,0,45,200}, concurrency in {None,0..N}; full product for N<=3 (quick) / N<=4 (thorough), random sample for N=4..6; real EyeballSet result and finish time vs independent reference; distinct by full script; non-trivial = N>=2 or a timer is configured";
const RULE11: &str = "same scripts as C10; first-poll time of every attempt vs reference start times (order, initial batch size, pacing never earlier/later, deadline); tie cases (two events in one virtual ms) judged on order/batch/deadline only";

const LATS: [u64; 6] = [0, 10, 20, 35, 50, 100];
const DELAYS: [Option<u64>; 4] = [None, Some(0), Some(15), Some(40)];
const TIMEOUTS: [Option<u64>; 4] = [None, Some(0), Some(45), Some(200)];

#[derive(Clone, Copy, Debug, PartialEq, Eq, Hash)]
pub enum Outcome {
    Ok,
    Err,
    Never,
}

#[derive(Clone, Debug, Hash, PartialEq, Eq)]
pub struct Script {
    pub attempts: Vec<(Outcome, u64)>,
    pub delay: Option<u64>,
    pub timeout: Option<u64>,
    pub concurrency: Option<usize>,
}

impl Script {
    fn to_json(&self) -> Value {
        json!({
            "attempts": self.attempts.iter().map(|(o, l)| format!("{o:?}@{l}")).collect::<Vec<_>>(),
            "delay": self.delay, "timeout": self.timeout, "concurrency": self.concurrency,
        })
    }
    fn from_json(v: &Value) -> Script {
        let attempts = v["attempts"]
            .as_array()
            .unwrap()
            .iter()
            .map(|s| {
                let s = s.as_str().unwrap();
                let (o, l) = s.split_once('@').unwrap();
                let o = match o {
                    "Ok" => Outcome::Ok,
                    "Err" => Outcome::Err,
                    _ => Outcome::Never,
                };
                (o, l.parse().unwrap())
            })
            .collect();
        Script {
            attempts,
            delay: v["delay"].as_u64(),
            timeout: v["timeout"].as_u64(),
            concurrency: v["concurrency"].as_u64().map(|x| x as usize),
        }
    }
}

#[derive(Debug, Clone, PartialEq, Eq)]
pub enum Res {
    Ok(usize),
    Err(usize),
    Timeout,
    NoProgress,
    Hang,
}

#[derive(Debug)]
pub struct Expect {
    /// acceptable results (more than one only in tie cases)
    pub results: Vec<Res>,
    pub finish: Option<u64>,
    pub starts: Vec<Option<u64>>,
    pub tie: bool,
}

/// Independent reference of the stated behaviour (not derived from the implementation's control flow:
/// it is an event list over "stagger tick", "attempt completion", "deadline").
pub fn reference(s: &Script) -> Expect {
    let n = s.attempts.len();
    let mut starts: Vec<Option<u64>> = vec![None; n];
    let mut tie = false;
    if n == 0 {
        return Expect { results: vec![Res::NoProgress], finish: Some(0), starts, tie };
    }
    let deadline = s.timeout;
    let batch = s.concurrency.unwrap_or(n).min(n);
    for st in starts.iter_mut().take(batch) {
        *st = Some(0);
    }
    let mut next = batch;
    // an attempt that completes in the instant it is started coincides with the other starts of that instant
    if s.attempts.iter().any(|(o, l)| *o != Outcome::Never && *l == 0) && n > 1 {
        tie = true;
    }
    let mut consumed = vec![false; n];
    let mut first_err: Option<usize> = None;
    let mut t: u64 = 0; // current time == time the current wait started
    // helper: earliest unconsumed completion among started attempts
    let earliest = |starts: &Vec<Option<u64>>, consumed: &Vec<bool>| -> Option<(u64, Vec<usize>)> {
        let mut best: Option<(u64, Vec<usize>)> = None;
        for i in 0..n {
            if consumed[i] {
                continue;
            }
            if let (Some(st), (o, l)) = (starts[i], s.attempts[i]) {
                if o == Outcome::Never {
                    continue;
                }
                let c = st + l;
                match &mut best {
                    None => best = Some((c, vec![i])),
                    Some((bt, ids)) => {
                        if c < *bt {
                            best = Some((c, vec![i]));
                        } else if c == *bt {
                            ids.push(i);
                        }
                    }
                }
            }
        }
        best
    };
    let over = |te: u64, tie: &mut bool| -> bool {
        match deadline {
            Some(d) if te > d => true,
            Some(d) if te == d => {
                *tie = true;
                false
            }
            _ => false,
        }
    };
    let timeout_result = |tie: bool, starts: Vec<Option<u64>>| Expect {
        results: vec![Res::Timeout],
        finish: deadline,
        starts,
        tie,
    };
    loop {
        let running = (0..n).any(|i| starts[i].is_some() && !consumed[i]);
        if next < n && !running {
            // nothing is running: the next candidate is started at once
            if over(t, &mut tie) {
                return timeout_result(tie, starts);
            }
            starts[next] = Some(t);
            next += 1;
            continue;
        }
        let tc = earliest(&starts, &consumed);
        let td = if next < n { s.delay.map(|d| t + d) } else { None };
        let te = match (&tc, td) {
            (Some((c, _)), Some(d)) => Some((*c).min(d)),
            (Some((c, _)), None) => Some(*c),
            (None, Some(d)) => Some(d),
            (None, None) => None,
        };
        let Some(te) = te else {
            // only never-completing attempts are running and no stagger timer: wait for the deadline
            return match deadline {
                Some(_) => timeout_result(tie, starts),
                None => Expect { results: vec![Res::Hang], finish: None, starts, tie },
            };
        };
        if over(te, &mut tie) {
            return timeout_result(tie, starts);
        }
        let completion_first = matches!(&tc, Some((c, _)) if *c == te);
        if let (Some((c, _)), Some(d)) = (&tc, td) {
            if *c == d {
                tie = true;
            }
        }
        if completion_first {
            let (c, ids) = tc.unwrap();
            if ids.len() > 1 {
                tie = true;
            }
            // coinciding completions are observed one at a time (lowest id first here; any order is
            // acceptable, which is why the case is flagged as a tie)
            let oks: Vec<usize> = ids.iter().copied().filter(|i| s.attempts[*i].0 == Outcome::Ok).collect();
            if !oks.is_empty() {
                let mut results: Vec<Res> = oks.iter().map(|i| Res::Ok(*i)).collect();
                if deadline == Some(c) {
                    results.push(Res::Timeout);
                }
                return Expect { results, finish: Some(c), starts, tie };
            }
            let i = ids[0];
            consumed[i] = true;
            if first_err.is_none() {
                first_err = Some(i);
            }
            t = c;
            if next < n {
                // one failure releases one further candidate
                starts[next] = Some(t);
                next += 1;
            } else if (0..n).all(|i| consumed[i]) {
                let mut results = vec![Res::Err(first_err.unwrap())];
                if deadline == Some(c) {
                    results.push(Res::Timeout);
                }
                return Expect { results, finish: Some(c), starts, tie };
            }
        } else {
            // stagger tick
            t = te;
            starts[next] = Some(t);
            next += 1;
        }
    }
}

#[derive(Default, Debug, Clone)]
pub struct AttemptLog {
    pub first_poll: Option<u64>,
    pub polls_first: u32,
    pub completed: Option<u64>,
    pub dropped: Option<u64>,
}

struct Attempt {
    id: usize,
    outcome: Outcome,
    latency: u64,
    t0: Instant,
    log: Arc<Mutex<Vec<AttemptLog>>>,
    sleep: Option<std::pin::Pin<Box<tokio::time::Sleep>>>,
    started: bool,
}

impl std::future::Future for Attempt {
    type Output = Result<usize, usize>;
    fn poll(mut self: std::pin::Pin<&mut Self>, cx: &mut std::task::Context<'_>) -> std::task::Poll<Self::Output> {
        let now = self.t0.elapsed().as_millis() as u64;
        if !self.started {
            self.started = true;
            let mut l = self.log.lock().unwrap();
            l[self.id].first_poll.get_or_insert(now);
            l[self.id].polls_first += 1;
            drop(l);
            if self.outcome != Outcome::Never && self.latency > 0 {
                self.sleep = Some(Box::pin(tokio::time::sleep(Duration::from_millis(self.latency))));
            }
        }
        if self.outcome == Outcome::Never {
            return std::task::Poll::Pending;
        }
        if let Some(s) = self.sleep.as_mut() {
            if s.as_mut().poll(cx).is_pending() {
                return std::task::Poll::Pending;
            }
        }
        let now = self.t0.elapsed().as_millis() as u64;
        self.log.lock().unwrap()[self.id].completed = Some(now);
        std::task::Poll::Ready(if self.outcome == Outcome::Ok { Ok(self.id) } else { Err(self.id) })
    }
}

impl Drop for Attempt {
    fn drop(&mut self) {
        let now = self.t0.elapsed().as_millis() as u64;
        self.log.lock().unwrap()[self.id].dropped = Some(now);
    }
}

pub struct Observed {
    pub result: Res,
    pub finish: Option<u64>,
    pub log: Vec<AttemptLog>,
}

pub async fn run_real(s: &Script) -> Observed {
    let t0 = Instant::now();
    let log = Arc::new(Mutex::new(vec![AttemptLog::default(); s.attempts.len()]));
    let mut set: EyeballSet<Attempt, usize, usize> = EyeballSet::new(
        s.delay.map(Duration::from_millis),
        s.timeout.map(Duration::from_millis),
        s.concurrency,
    );
    for (id, (o, l)) in s.attempts.iter().enumerate() {
        set.push(Attempt { id, outcome: *o, latency: *l, t0, log: log.clone(), sleep: None, started: false });
    }
    let r = tokio::time::timeout(Duration::from_secs(3600), set.finish()).await;
    let finish = t0.elapsed().as_millis() as u64;
    let (result, finish) = match r {
        Err(_) => (Res::Hang, None),
        Ok(Ok(id)) => (Res::Ok(id), Some(finish)),
        Ok(Err(HappyEyeballsError::Error(id))) => (Res::Err(id), Some(finish)),
        Ok(Err(HappyEyeballsError::Timeout(_))) => (Res::Timeout, Some(finish)),
        Ok(Err(HappyEyeballsError::NoProgress)) => (Res::NoProgress, Some(finish)),
        Ok(Err(_)) => (Res::Hang, Some(finish)),
    };
    let l = log.lock().unwrap().clone();
    drop(set);
    Observed { result, finish, log: l }
}

fn judge(s: &Script, exp: &Expect, obs: &Observed, p10: Option<&mut PropReport>, p11: Option<&mut PropReport>) {
    let n = s.attempts.len();
    let nontrivial = n >= 2 || s.delay.is_some() || s.timeout.is_some();
    let key = if nontrivial { Some(hash_of(s)) } else { None };
    let replay = json!({"engine": "eyeballs", "script": s.to_json()});
    let shape = format!(
        "delay={} timeout={} conc={}",
        match s.delay { None => "none", Some(0) => "zero", _ => "finite" },
        match s.timeout { None => "none", Some(0) => "zero", _ => "finite" },
        match s.concurrency { None => "none", Some(0) => "zero", Some(c) if c >= n => "ge-n", _ => "lt-n" },
    );
    if let Some(p) = p10 {
        p.eval(key);
        if exp.tie {
            p.count("tie_cases", 1);
        } else {
            p.count("tie_free_cases", 1);
        }
        p.count(&format!("result_{}", match &obs.result { Res::Ok(_) => "ok", Res::Err(_) => "err", Res::Timeout => "timeout", Res::NoProgress => "noprogress", Res::Hang => "hang" }), 1);
        // ---- universal (order-independent) checks over what was observed -------------------
        let started: Vec<Option<u64>> = obs.log.iter().map(|l| l.first_poll).collect();
        let completion = |i: usize| -> Option<u64> {
            match (started[i], s.attempts[i]) {
                (Some(st), (o, l)) if o != Outcome::Never => Some(st + l),
                _ => None,
            }
        };
        let mut universal: Option<(&str, String)> = None;
        match &obs.result {
            Res::Ok(i) => {
                let i = *i;
                if i >= n || s.attempts[i].0 != Outcome::Ok || started[i].is_none() {
                    universal = Some(("ok-from-non-succeeding-attempt", format!("winner {i}")));
                } else if completion(i) != obs.finish {
                    universal = Some(("winner-not-returned-when-it-completed", format!("winner {i} completes at {:?}, finished at {:?}", completion(i), obs.finish)));
                } else if let Some(j) = (0..n).find(|j| s.attempts[*j].0 == Outcome::Ok && completion(*j).is_some() && completion(*j) < obs.finish) {
                    universal = Some(("wrong-winner", format!("attempt {j} succeeded at {:?} before the returned winner {i} at {:?}", completion(j), obs.finish)));
                }
            }
            Res::Err(i) => {
                let i = *i;
                let first_fail = (0..n).filter(|j| s.attempts[*j].0 == Outcome::Err).filter_map(&completion).min();
                if started.iter().any(|x| x.is_none()) {
                    universal = Some(("error-before-all-candidates-tried", format!("starts {started:?}")));
                } else if (0..n).any(|j| s.attempts[j].0 == Outcome::Ok) {
                    universal = Some(("error-although-a-started-candidate-succeeds", String::new()));
                } else if i >= n || s.attempts[i].0 != Outcome::Err || completion(i) != first_fail {
                    universal = Some(("not-the-first-failure", format!("reported {i} (completes {:?}), first failure at {:?}", if i < n { completion(i) } else { None }, first_fail)));
                }
            }
            Res::Timeout => match s.timeout {
                None => universal = Some(("spurious-timeout", "no deadline configured".into())),
                Some(d) => {
                    if obs.finish.map(|f| f < d).unwrap_or(true) {
                        universal = Some(("timeout-before-deadline", format!("finished {:?} deadline {d}", obs.finish)));
                    } else if let Some(j) = (0..n).find(|j| s.attempts[*j].0 == Outcome::Ok && completion(*j).map(|c| c < d).unwrap_or(false)) {
                        universal = Some(("timeout-although-success-before-deadline", format!("attempt {j} succeeded at {:?} < {d}", completion(j))));
                    }
                }
            },
            Res::NoProgress => {
                if n != 0 {
                    universal = Some(("spurious-noprogress", String::new()));
                }
            }
            Res::Hang => {
                if s.timeout.is_some() {
                    universal = Some(("hang-despite-deadline", String::new()));
                } else if (0..n).any(|j| s.attempts[j].0 == Outcome::Ok && started[j].is_some()) {
                    universal = Some(("hang-although-a-started-candidate-succeeds", String::new()));
                }
            }
        }
        let late_vs_deadline = matches!((s.timeout, obs.finish), (Some(d), Some(f)) if f > d);
        if let Some((kind, detail)) = universal {
            p.violation(
                format!("result:{kind}:{shape}"),
                format!("script {} -> {:?} at {:?}ms; {detail}; starts {:?}", s.to_json(), obs.result, obs.finish, started),
                replay.clone(),
            );
        } else if late_vs_deadline {
            // finishing after the deadline is C11's concern (reported there as deadline:finished-late)
            p.count("finished_after_deadline_left_to_C11", 1);
        } else if !exp.tie && started == exp.starts && !exp.results.contains(&obs.result) {
            let kind = match (&exp.results[0], &obs.result) {
                (Res::Ok(_), Res::Ok(_)) => "wrong-winner",
                (Res::Ok(_), Res::Err(_)) => "error-although-a-candidate-would-succeed",
                (Res::Ok(_), Res::Timeout) => "timeout-although-success-before-deadline",
                (Res::Err(_), Res::Err(_)) => "not-the-first-failure",
                (Res::Err(_), Res::Ok(_)) => "ok-although-all-fail",
                (Res::Timeout, _) => "no-timeout-at-deadline",
                (Res::NoProgress, _) => "empty-set-not-noprogress",
                (Res::Hang, _) => "resolved-although-nothing-can-complete",
                (_, Res::Hang) => "hang",
                (_, Res::NoProgress) => "spurious-noprogress",
                (_, Res::Timeout) => "spurious-timeout",
                _ => "other",
            };
            p.violation(
                format!("result-vs-reference:{kind}:{shape}"),
                format!("script {} -> {:?} at {:?}ms, reference {:?} at {:?}ms", s.to_json(), obs.result, obs.finish, exp.results, exp.finish),
                replay.clone(),
            );
        } else if !exp.tie && started != exp.starts && matches!(exp.results[0], Res::Ok(_)) && !matches!(obs.result, Res::Ok(_)) {
            // the attempts were not started when the pacing rules say (C11 reports that); here: a candidate that accepts
            // before the deadline once it is attempted exists, and the operation did not succeed
            p.violation(
                format!("result-vs-reference:no-success-although-a-candidate-accepts-in-time:{shape}"),
                format!("script {} -> {:?} at {:?}ms with starts {:?}; started as configured ({:?}) the reference succeeds: {:?} at {:?}ms", s.to_json(), obs.result, obs.finish, started, exp.starts, exp.results, exp.finish),
                replay.clone(),
            );
        } else if !exp.tie && started == exp.starts && obs.finish != exp.finish {
            p.violation(
                format!("finish-time:{}:{shape}", if obs.finish > exp.finish { "late" } else { "early" }),
                format!("script {} -> {:?} at {:?}ms, reference finish {:?}ms", s.to_json(), obs.result, obs.finish, exp.finish),
                replay.clone(),
            );
        }
        if p.samples.len() < 4 && n == 3 && s.delay.is_some() {
            p.sample(json!({"script": s.to_json(), "observed": format!("{:?}", obs.result), "finish_ms": obs.finish, "starts": obs.log.iter().map(|l| l.first_poll).collect::<Vec<_>>() }));
        }
    }
    if let Some(p) = p11 {
        p.eval(key);
        let starts: Vec<Option<u64>> = obs.log.iter().map(|l| l.first_poll).collect();
        if exp.tie {
            p.count("tie_cases", 1);
        } else {
            p.count("tie_free_cases", 1);
        }
        p.count("attempt_starts_observed", starts.iter().filter(|s| s.is_some()).count() as u64);
        // each candidate at most once
        if obs.log.iter().any(|l| l.polls_first > 1) {
            p.violation(format!("start:more-than-once:{shape}"), format!("script {}", s.to_json()), replay.clone());
        }
        // in order: started set is a prefix, times non-decreasing
        let mut prev = 0u64;
        let mut gap = false;
        let mut order_ok = true;
        for st in &starts {
            match st {
                Some(t) => {
                    if gap || *t < prev {
                        order_ok = false;
                    }
                    prev = *t;
                }
                None => gap = true,
            }
        }
        if !order_ok {
            p.violation(format!("start:out-of-order:{shape}"), format!("script {} starts {:?}", s.to_json(), starts), replay.clone());
        }
        // initial batch
        let at0 = starts.iter().filter(|s| **s == Some(0)).count();
        let exp0 = exp.starts.iter().filter(|s| **s == Some(0)).count();
        if !exp.tie && at0 != exp0 && obs.finish != Some(0) {
            p.violation(
                format!("start:initial-batch-{}:{shape}", if at0 > exp0 { "too-large" } else { "too-small" }),
                format!("script {} started {at0} at t0, reference {exp0}; starts {:?}", s.to_json(), starts),
                replay.clone(),
            );
        } else if exp.tie && s.delay != Some(0) && !s.attempts.iter().any(|a| a.1 == 0 && a.0 != Outcome::Never) {
            // even in tie cases the initial batch is bounded by the configured concurrency when no event can occur at t0
            let bound = s.concurrency.unwrap_or(n).max(1).min(n);
            if at0 > bound {
                p.violation(format!("start:initial-batch-too-large:{shape}"), format!("script {} started {at0} at t0 > {bound}", s.to_json()), replay.clone());
            }
        }
        // pacing: exact start times, judged up to the instant at which either run ended (a wrong result or a
        // wrong finish time is C10's business and must not be reported here as a pacing fault)
        if !exp.tie {
            let horizon = match (obs.finish, exp.finish) {
                (Some(a), Some(b)) => a.min(b),
                (Some(a), None) => a,
                (None, Some(b)) => b,
                (None, None) => u64::MAX,
            };
            let mut kind = None;
            for (o, e) in starts.iter().zip(&exp.starts) {
                let o = o.filter(|t| *t < horizon);
                let e = e.filter(|t| *t < horizon);
                match (o, e) {
                    (Some(a), Some(b)) if a < b => { kind = Some("early"); break; }
                    (Some(a), Some(b)) if a > b => { kind = Some("late"); break; }
                    (Some(_), None) => { kind = Some("early"); break; }
                    (None, Some(_)) => { kind = Some("late-or-missing"); break; }
                    _ => {}
                }
            }
            if let Some(kind) = kind {
                p.violation(
                    format!("pacing:start-{kind}:{shape}"),
                    format!("script {} starts {:?}, reference {:?} (judged before {horizon}ms)", s.to_json(), starts, exp.starts),
                    replay.clone(),
                );
            }
        }
        // never earlier (weak, order-independent bound used in every case): candidate k beyond the initial
        // batch is released by a stagger tick after its predecessor's start or by some failure
        {
            let batch = s.concurrency.unwrap_or(n).max(1).min(n);
            for k in batch..n {
                if let (Some(sk), Some(sp)) = (starts[k], starts[k - 1]) {
                    let tick = s.delay.map(|d| sp + d);
                    let first_failure = (0..k)
                        .filter(|j| s.attempts[*j].0 == Outcome::Err)
                        .filter_map(|j| starts[j].map(|st| st + s.attempts[j].1))
                        .min();
                    let nothing_running = (0..k).all(|j| s.attempts[j].0 == Outcome::Err && starts[j].map(|st| st + s.attempts[j].1 <= sk).unwrap_or(false));
                    let bound = match (tick, first_failure) {
                        (Some(a), Some(b)) => Some(a.min(b)),
                        (a, None) => a,
                        (None, b) => b,
                    };
                    match bound {
                        Some(b) if sk < b && !nothing_running => {
                            p.violation(format!("pacing:start-early:{shape}"), format!("script {} candidate {k} started at {sk}ms before tick/failure bound {b}ms; starts {:?}", s.to_json(), starts), replay.clone());
                        }
                        None if !nothing_running => {
                            p.violation(format!("pacing:start-without-cause:{shape}"), format!("script {} candidate {k} started at {sk}ms with no stagger delay and no failure; starts {:?}", s.to_json(), starts), replay.clone());
                        }
                        _ => {}
                    }
                }
            }
        }
        // deadline
        if let (Some(d), Some(f)) = (s.timeout, obs.finish) {
            if f > d {
                p.violation(format!("deadline:finished-late:{shape}"), format!("script {} finished at {f}ms > deadline {d}ms", s.to_json()), replay.clone());
            }
        }
        if let (Some(_), Res::Hang) = (s.timeout, &obs.result) {
            p.violation(format!("deadline:never-finished:{shape}"), format!("script {}", s.to_json()), replay.clone());
        }
        if p.samples.len() < 4 && n == 3 && s.delay.map(|d| d > 0).unwrap_or(false) && !exp.tie {
            p.sample(json!({"script": s.to_json(), "starts_ms": starts, "reference_starts_ms": exp.starts, "finish_ms": obs.finish}));
        }
    }
}

fn all_attempt_choices() -> Vec<(Outcome, u64)> {
    let mut v = vec![(Outcome::Never, 0)];
    for l in LATS {
        v.push((Outcome::Ok, l));
        v.push((Outcome::Err, l));
    }
    v
}

fn enumerate_scripts(n: usize) -> Vec<Script> {
    let choices = all_attempt_choices();
    let mut out = Vec::new();
    let mut idx = vec![0usize; n];
    loop {
        let attempts: Vec<(Outcome, u64)> = idx.iter().map(|i| choices[*i]).collect();
        for d in DELAYS {
            for t in TIMEOUTS {
                let mut concs: Vec<Option<usize>> = vec![None];
                for c in 0..=n {
                    concs.push(Some(c));
                }
                for c in concs {
                    out.push(Script { attempts: attempts.clone(), delay: d, timeout: t, concurrency: c });
                }
            }
        }
        // increment
        let mut k = 0;
        loop {
            if k == n {
                return out;
            }
            idx[k] += 1;
            if idx[k] < choices.len() {
                break;
            }
            idx[k] = 0;
            k += 1;
        }
        if n == 0 {
            return out;
        }
    }
}

fn random_script(rng: &mut StdRng, n: usize) -> Script {
    let choices = all_attempt_choices();
    Script {
        attempts: (0..n).map(|_| choices[rng.gen_range(0..choices.len())]).collect(),
        delay: DELAYS[rng.gen_range(0..4)].map(|d| if d > 0 && rng.gen_bool(0.3) { rng.gen_range(1..60) } else { d }),
        timeout: TIMEOUTS[rng.gen_range(0..4)].map(|d| if d > 0 && rng.gen_bool(0.3) { rng.gen_range(1..300) } else { d }),
        concurrency: if rng.gen_bool(0.2) { None } else { Some(rng.gen_range(0..=n)) },
    }
}

fn run_scripts(args: &Args, scripts: &[Script]) -> Report {
    let chunk = 512u64;
    let jobs = (scripts.len() as u64 + chunk - 1) / chunk;
    crate::report::parallel(args.threads, jobs, "eyeballs", |j, rep| {
        let rt = tokio::runtime::Builder::new_current_thread().enable_time().start_paused(true).build().unwrap();
        let lo = (j * chunk) as usize;
        let hi = ((j + 1) * chunk as u64).min(scripts.len() as u64) as usize;
        for s in &scripts[lo..hi] {
            let exp = reference(s);
            let obs = rt.block_on(run_real(s));
            let mut p10 = if args.wants("C10") { Some(rep.props.remove("C10").unwrap_or_else(|| PropReport::new(RULE10))) } else { None };
            let mut p11 = if args.wants("C11") { Some(rep.props.remove("C11").unwrap_or_else(|| PropReport::new(RULE11))) } else { None };
            judge(s, &exp, &obs, p10.as_mut(), p11.as_mut());
            if let Some(p) = p10 {
                rep.props.insert("C10".into(), p);
            }
            if let Some(p) = p11 {
                rep.props.insert("C11".into(), p);
            }
        }
    })
}

pub fn run(args: &Args) -> Report {
    if let Some(path) = &args.replay {
        let v: Value = serde_json::from_str(&std::fs::read_to_string(path).unwrap()).unwrap();
        let s = Script::from_json(&v["replay"]["script"]);
        let exp = reference(&s);
        let rt = tokio::runtime::Builder::new_current_thread().enable_time().start_paused(true).build().unwrap();
        let obs = rt.block_on(run_real(&s));
        println!("script {}\nreference {:?}\nobserved {:?} finish {:?}\nlog {:?}", s.to_json(), exp, obs.result, obs.finish, obs.log);
        let mut rep = Report::new("eyeballs");
        let mut p10 = PropReport::new(RULE10);
        let mut p11 = PropReport::new(RULE11);
        judge(&s, &exp, &obs, Some(&mut p10), Some(&mut p11));
        rep.props.insert("C10".into(), p10);
        rep.props.insert("C11".into(), p11);
        return rep;
    }
    let mut scripts = Vec::new();
    let mut rng = StdRng::seed_from_u64(args.seed ^ 0xe7eba115);
    scripts.extend(enumerate_scripts(0));
    scripts.extend(enumerate_scripts(1));
    scripts.extend(enumerate_scripts(2));
    scripts.extend(enumerate_scripts(3));
    let full4 = args.tier_thorough;
    if full4 {
        scripts.extend(enumerate_scripts(4));
    }
    let n_random: usize = if args.tier_thorough { 2_000_000 } else { 200_000 };
    for i in 0..n_random {
        let n = if full4 { 5 + (i % 2) } else { 4 + (i % 3) };
        scripts.push(random_script(&mut rng, n));
    }
    let mut report = run_scripts(args, &scripts);
    for id in ["C10", "C11"] {
        if let Some(p) = report.props.get_mut(id) {
            p.exhaustive = Some(false);
            p.count("scripts_enumerated_full_product_max_n", 0);
            p.max("max_full_product_n", if full4 { 4 } else { 3 });
            p.assume("virtual time: tokio paused clock, 1 ms resolution; cases where two events share a millisecond are ties and judged only on order-independent facts");
            p.assume("concurrency=Some(0): the first candidate is started immediately because nothing is running");
        }
    }
    if args.wants("C10") {
        public_part(args, &mut report);
    }
    blackhole_part(args, &mut report);
    report
}

/// Public path with a candidate that never completes: a loopback listener whose accept queue is full drops
/// further SYNs, so a connect to it neither succeeds nor fails. Real time, one-sided margins.
fn blackhole_part(args: &Args, report: &mut Report) {
    use hyperdriver::client::conn::transport::tcp::{TcpTransport, TcpTransportConfig};
    use std::net::SocketAddr;
    use std::time::Instant;
    let rt = tokio::runtime::Builder::new_current_thread().enable_all().build().unwrap();
    let rounds = if args.tier_thorough { 6 } else { 1 };
    for round in 0..rounds {
        let res = rt.block_on(async {
            // build the black hole
            let socket = tokio::net::TcpSocket::new_v4().ok()?;
            socket.bind("127.0.0.1:0".parse().unwrap()).ok()?;
            let listener = socket.listen(1).ok()?;
            let hole: SocketAddr = listener.local_addr().ok()?;
            let mut fillers = Vec::new();
            let mut full = false;
            for _ in 0..32 {
                match tokio::time::timeout(Duration::from_millis(250), tokio::net::TcpStream::connect(hole)).await {
                    Ok(Ok(s)) => fillers.push(s),
                    Ok(Err(_)) => return None,
                    Err(_) => {
                        full = true;
                        break;
                    }
                }
            }
            if !full {
                return None;
            }
            let good = tokio::net::TcpListener::bind("127.0.0.1:0").await.ok()?;
            let good_addr = good.local_addr().ok()?;
            let mut out: Vec<(&'static str, Result<Option<SocketAddr>, String>, u128)> = Vec::new();
            // (a) a single never-completing candidate: the overall deadline bounds the operation
            let mut cfg = TcpTransportConfig::default();
            cfg.happy_eyeballs_timeout = Some(Duration::from_millis(300));
            cfg.connect_timeout = Some(Duration::from_secs(4));
            cfg.happy_eyeballs_concurrency = [Some(1), Some(2), None][round % 3];
            // late-side judgements are repeated up to three times: a loaded machine can delay one run, a defect delays all
            let mut watchdogs = 0;
            for attempt in 0..3 {
                let t: TcpTransport = TcpTransport::builder().with_config(cfg.clone()).with_gai_resolver().build();
                let t0 = Instant::now();
                let r = tokio::time::timeout(Duration::from_secs(8), t.connect_to_addrs([hole])).await;
                let ms = t0.elapsed().as_millis();
                let res = match r {
                    Err(_) => {
                        watchdogs += 1;
                        // three runs in a row still pending 8 s after the call, with a 300 ms deadline configured: that is
                        // not a slow machine, the deadline is not in force
                        Err(if watchdogs == 3 { "STILL-PENDING-AFTER-8S-IN-3-RUNS".to_string() } else { "WATCHDOG".to_string() })
                    }
                    Ok(Ok(s)) => Ok(s.peer_addr().ok()),
                    Ok(Err(e)) => Err(e.to_string()),
                };
                let fine = ms <= 300 + 1200;
                if fine || attempt == 2 {
                    out.push(("single-black-hole", res, ms));
                    break;
                }
            }
            // (b) black hole first, listening address second, one attempt at a time: the second attempt is
            //     released by the stagger tick (timeout / n = 1000 ms), not earlier, and wins
            let mut cfg = TcpTransportConfig::default();
            cfg.happy_eyeballs_timeout = Some(Duration::from_millis(2000));
            cfg.connect_timeout = Some(Duration::from_secs(6));
            cfg.happy_eyeballs_concurrency = Some(1);
            for attempt in 0..3 {
                let t: TcpTransport = TcpTransport::builder().with_config(cfg.clone()).with_gai_resolver().build();
                let t0 = Instant::now();
                let r = tokio::time::timeout(Duration::from_secs(10), t.connect_to_addrs([hole, good_addr])).await;
                let ms = t0.elapsed().as_millis();
                let res = match r { Err(_) => Err("WATCHDOG".into()), Ok(Ok(s)) => Ok(s.peer_addr().ok()), Ok(Err(e)) => Err(e.to_string()) };
                let fine = res.is_ok() && ms <= 2000 + 1200;
                if fine || attempt == 2 {
                    out.push(("black-hole-then-listening", res, ms));
                    break;
                }
            }
            // (c) two listening candidates, one attempt at a time: the first one given is the first one tried
            let good2 = tokio::net::TcpListener::bind("127.0.0.12:0").await.ok()?;
            let good2_addr = good2.local_addr().ok()?;
            let mut cfg = TcpTransportConfig::default();
            cfg.happy_eyeballs_timeout = Some(Duration::from_millis(4000));
            cfg.connect_timeout = Some(Duration::from_secs(6));
            cfg.happy_eyeballs_concurrency = Some(1);
            for (name, addrs) in [("two-listening-in-order", vec![good_addr, good2_addr]), ("two-listening-reversed", vec![good2_addr, good_addr])] {
                let t: TcpTransport = TcpTransport::builder().with_config(cfg.clone()).with_gai_resolver().build();
                let first = addrs[0];
                let t0 = Instant::now();
                let r = tokio::time::timeout(Duration::from_secs(10), t.connect_to_addrs(addrs)).await;
                let ms = t0.elapsed().as_millis();
                let res = match r { Err(_) => Err("WATCHDOG".into()), Ok(Ok(s)) => Ok(s.peer_addr().ok().filter(|p| *p != first)), Ok(Err(e)) => Err(e.to_string()) };
                out.push((name, res, ms));
            }
            // (d) mixed families, one attempt at a time: two refusing IPv6 candidates in front of the two listening IPv4
            //     ones. The documented family order puts the first IPv6 address first and the FIRST IPv4 address second,
            //     so the connection has to land on the first IPv4 candidate of the list given.
            let refused_v6 = |_: ()| -> Option<SocketAddr> {
                let l = std::net::TcpListener::bind("[::1]:0").ok()?;
                let a = l.local_addr().ok()?;
                drop(l);
                Some(a)
            };
            if let (Some(r1), Some(r2)) = (refused_v6(()), refused_v6(())) {
                for (name, addrs, want) in [("mixed-families-in-order", vec![r1, r2, good_addr, good2_addr], good_addr), ("mixed-families-reversed", vec![r1, r2, good2_addr, good_addr], good2_addr)] {
                    let t: TcpTransport = TcpTransport::builder().with_config(cfg.clone()).with_gai_resolver().build();
                    let t0 = Instant::now();
                    let r = tokio::time::timeout(Duration::from_secs(10), t.connect_to_addrs(addrs)).await;
                    let ms = t0.elapsed().as_millis();
                    let res = match r { Err(_) => Err("WATCHDOG".into()), Ok(Ok(s)) => Ok(s.peer_addr().ok().filter(|p| *p != want)), Ok(Err(e)) => Err(e.to_string()) };
                    out.push((name, res, ms));
                }
            }
            drop(fillers);
            drop(listener);
            Some((out, good_addr))
        });
        let Some((out, good_addr)) = res else {
            for id in ["C10", "C11"] {
                if args.wants(id) {
                    report.prop(id, if id == "C10" { RULE10 } else { RULE11 }).count("blackhole_could_not_be_built", 1);
                }
            }
            continue;
        };
        for (name, result, ms) in out {
            let replay = json!({"engine": "eyeballs", "public": true, "blackhole_trial": name});
            if matches!(&result, Err(e) if e == "STILL-PENDING-AFTER-8S-IN-3-RUNS") {
                for id in ["C10", "C11"] {
                    if args.wants(id) {
                        let p = report.prop(id, if id == "C10" { RULE10 } else { RULE11 });
                        p.eval(Some(hash_of(&("blackhole", name, round))));
                        p.count("blackhole_trials", 1);
                        p.violation("public:configured-deadline-not-in-force", format!("{name}: TcpTransport built with happy_eyeballs_timeout = 300 ms was still connecting to a never-answering candidate after 8 s, three runs in a row"), replay.clone());
                    }
                }
                continue;
            }
            if matches!(&result, Err(e) if e == "WATCHDOG") {
                for id in ["C10", "C11"] {
                    if args.wants(id) {
                        report.prop(id, "").inconclusive.push(format!("black-hole trial {name}: 8 s watchdog fired"));
                    }
                }
                continue;
            }
            if args.wants("C10") {
                let p = report.prop("C10", RULE10);
                p.eval(Some(hash_of(&("blackhole", name, round))));
                p.count("blackhole_trials", 1);
                match (name, &result) {
                    ("single-black-hole", Ok(_)) => p.violation("public:ok-from-never-completing-candidate", format!("{name}: {result:?}"), replay.clone()),
                    ("black-hole-then-listening", Ok(peer)) if *peer != Some(good_addr) => p.violation("public:connected-to-wrong-candidate", format!("{name}: peer {peer:?}"), replay.clone()),
                    ("black-hole-then-listening", Err(e)) => p.violation("public:error-although-a-candidate-listens", format!("{name}: {e}"), replay.clone()),
                    _ => {}
                }
            }
            if args.wants("C11") {
                let p = report.prop("C11", RULE11);
                p.eval(Some(hash_of(&("blackhole", name, round))));
                p.count("blackhole_trials", 1);
                if p.samples.len() < 6 {
                    p.sample(json!({"public_blackhole_trial": name, "elapsed_ms": ms as u64, "result": format!("{result:?}")}));
                }
                match name {
                    "mixed-families-in-order" | "mixed-families-reversed" => match &result {
                        Ok(Some(other)) => p.violation("public:attempts-not-started-in-the-given-order:mixed-families", format!("{name}: [refusing v6, refusing v6, listening v4 A, listening v4 B], one attempt at a time, connected to {other} instead of A"), replay.clone()),
                        Err(e) => p.violation("public:error-although-candidates-listen:mixed-families", format!("{name}: {e}"), replay.clone()),
                        Ok(None) => p.count("mixed_family_trials", 1),
                    },
                    "two-listening-in-order" | "two-listening-reversed" => {
                        // Ok(None) = connected to the first candidate; Ok(Some(p)) = connected to another one
                        match &result {
                            Ok(Some(other)) => p.violation("public:attempts-not-started-in-the-given-order", format!("{name}: both candidates listen, one attempt at a time, connected to {other} instead of the first candidate"), replay.clone()),
                            Err(e) => p.violation("public:error-although-both-candidates-listen", format!("{name}: {e}"), replay.clone()),
                            Ok(None) => {}
                        }
                    }
                    "single-black-hole" => {
                        // deadline 300 ms; generous one-sided margin for a loaded machine
                        if ms > 300 + 1200 {
                            p.violation("public:deadline-not-enforced:single-candidate", format!("{name}: finished after {ms} ms with an overall deadline of 300 ms (connect_timeout 4 s; best of three runs)"), replay.clone());
                        }
                    }
                    _ => {
                        // How TcpConnecting derives its stagger delay from the overall timeout (today: timeout / n) is not
                        // fixed by the property, so "not earlier than the stagger delay" is judged only where the delay
                        // is an input: on the scripted EyeballSet. Here only the deadline is.
                        // with one attempt at a time the listening candidate has to be started while there is still time
                        // to connect: a stagger derived so that it falls on (or after) the deadline never tries it
                        if let Err(e) = &result {
                            p.violation("public:last-candidate-not-tried-before-the-deadline", format!("{name}: the first candidate never completes, the second one listens, one attempt at a time, overall deadline 2000 ms -> {e} (best of three runs)"), replay.clone());
                        }
                        if ms > 2000 + 1200 {
                            p.violation("public:deadline-not-enforced:two-candidates", format!("{name}: finished after {ms} ms with an overall deadline of 2000 ms (best of three runs)"), replay.clone());
                        }
                    }
                }
            }
        }
    }
}

/// Public path: `TcpTransport::connect_to_addrs` on loopback: error mapping of the transport.
fn public_part(args: &Args, report: &mut Report) {
    use hyperdriver::client::conn::transport::tcp::{TcpTransport, TcpTransportConfig};
    use std::net::{IpAddr, Ipv4Addr, SocketAddr};
    let rt = tokio::runtime::Builder::new_current_thread().enable_all().build().unwrap();
    let p = report.prop("C10", RULE10);
    let mut rng = StdRng::seed_from_u64(args.seed ^ 0x7c9);
    let trials = if args.tier_thorough { 200 } else { 30 };
    for t in 0..trials {
        let n = rng.gen_range(0..=4usize);
        let listen: Vec<bool> = (0..n).map(|_| rng.gen_bool(0.4)).collect();
        // one port, addresses 127.0.0.(10+i)
        let probe = std::net::TcpListener::bind("127.0.0.1:0").unwrap();
        let port = probe.local_addr().unwrap().port();
        drop(probe);
        let addrs: Vec<SocketAddr> = (0..n).map(|i| SocketAddr::new(IpAddr::V4(Ipv4Addr::new(127, 0, 0, 10 + i as u8)), port)).collect();
        let mut listeners = Vec::new();
        let mut bind_ok = true;
        for (a, l) in addrs.iter().zip(&listen) {
            if *l {
                match std::net::TcpListener::bind(a) {
                    Ok(l) => listeners.push(l),
                    Err(_) => bind_ok = false,
                }
            }
        }
        if !bind_ok {
            continue;
        }
        let mut config = TcpTransportConfig::default();
        config.happy_eyeballs_timeout = Some(Duration::from_secs(20));
        config.happy_eyeballs_concurrency = [None, Some(1), Some(2)][t % 3];
        let transport: TcpTransport = TcpTransport::builder().with_config(config).with_gai_resolver().build();
        let res = rt.block_on(async { tokio::time::timeout(Duration::from_secs(30), transport.connect_to_addrs(addrs.clone())).await });
        p.eval(Some(hash_of(&("pub", &listen, t % 3))));
        p.count("public_trials", 1);
        let case = json!({"engine":"eyeballs","public":true,"listen": listen, "concurrency": t % 3});
        match res {
            Err(_) => p.inconclusive.push(format!("public trial watchdog fired {case}")),
            Ok(Ok(stream)) => {
                let peer = stream.peer_addr().ok();
                let first_listening = addrs.iter().zip(&listen).find(|(_, l)| **l).map(|(a, _)| *a);
                if !listen.iter().any(|l| *l) {
                    p.violation("public:ok-although-nothing-listens", format!("{case} -> {peer:?}"), case);
                } else if !listen.iter().zip(&addrs).any(|(l, a)| *l && Some(*a) == peer) {
                    p.violation("public:connected-to-non-listening", format!("{case} -> {peer:?} (first listening {first_listening:?})"), case);
                }
            }
            Ok(Err(e)) => {
                let msg = e.to_string();
                if listen.iter().any(|l| *l) {
                    p.violation("public:error-although-a-candidate-listens", format!("{case} -> {msg}"), case);
                } else if n > 0 {
                    // every candidate refused: the error is the first failure observed, i.e. a refused connect.
                    // Judged on the io::ErrorKind found in the source chain, never on the wording.
                    let mut src: Option<&(dyn std::error::Error + 'static)> = Some(&e);
                    let mut kind = None;
                    while let Some(x) = src {
                        if let Some(io) = x.downcast_ref::<std::io::Error>() {
                            kind = Some(io.kind());
                            break;
                        }
                        src = x.source();
                    }
                    match kind {
                        Some(std::io::ErrorKind::TimedOut) => p.violation("public:timeout-reported-although-every-candidate-refused", format!("{case} -> {msg} (20 s deadline, every connect is refused at once)"), case),
                        Some(_) => p.count("public_refused_error_kind_seen", 1),
                        None => p.count("public_error_without_io_kind_not_judged", 1),
                    }
                }
            }
        }
        drop(listeners);
    }
    // a candidate whose socket cannot even be set up (local address of its family is not available on this host):
    // that is one failed candidate, the others are still tried
    for t in 0..(if args.tier_thorough { 12 } else { 3 }) {
        let good = std::net::TcpListener::bind("127.0.0.11:0").unwrap();
        let good_addr = good.local_addr().unwrap();
        let bad_v6: SocketAddr = format!("[::1]:{}", good_addr.port()).parse().unwrap();
        let mut config = TcpTransportConfig::default();
        config.happy_eyeballs_timeout = Some(Duration::from_secs(20));
        config.happy_eyeballs_concurrency = [None, Some(1), Some(2)][t % 3];
        config.local_address_ipv6 = Some("2001:db8::1".parse().unwrap());
        let transport: TcpTransport = TcpTransport::builder().with_config(config).with_gai_resolver().build();
        for (name, addrs, want_ok) in [("unusable-then-listening", vec![bad_v6, good_addr], true), ("listening-then-unusable", vec![good_addr, bad_v6], true), ("unusable-only", vec![bad_v6], false)] {
            let tr = transport.clone();
            let a2 = addrs.clone();
            let res = rt.block_on(async move { tokio::time::timeout(Duration::from_secs(30), tr.connect_to_addrs(a2)).await });
            p.eval(Some(hash_of(&("pub-setup", name, t % 3))));
            p.count("public_trials_candidate_setup_failure", 1);
            let case = json!({"engine":"eyeballs","public":true,"setup_failure_trial": name, "concurrency": t % 3});
            match res {
                Err(_) => p.inconclusive.push(format!("public trial watchdog fired {case}")),
                Ok(Ok(stream)) => {
                    if !want_ok || stream.peer_addr().ok() != Some(good_addr) {
                        p.violation("public:connected-to-unusable-candidate", format!("{case} -> {:?}", stream.peer_addr().ok()), case);
                    }
                }
                Ok(Err(e)) => {
                    if want_ok {
                        p.violation("public:error-although-a-candidate-listens:candidate-setup-failure", format!("{case}: candidates {addrs:?}, the IPv6 one cannot be set up (local_address_ipv6 is not available), the IPv4 one listens -> {e}"), case);
                    }
                }
            }
        }
        drop(good);
    }
}
