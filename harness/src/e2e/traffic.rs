//! C01 — requests and responses intact and correctly matched, end to end.
//!
//! Worlds of 1-3 hyperdriver servers (auto / http1 / http2; duplex, TCP, Unix) and the public client stack
//! with pool; rounds of concurrent id-carrying requests with streamed bodies, random cancellation points and
//! HTTP/1 upgrades. Online check of every response + offline join of the client log with the server log.

use std::future::Future;
use std::pin::Pin;
use std::sync::Arc;
use std::task::{Context, Poll};
use std::time::Duration;

use futures_util::stream::{FuturesUnordered, StreamExt};
use http_body_util::BodyExt;
use rand::rngs::StdRng;
use rand::{Rng, SeedableRng};
use serde_json::{json, Value};
use tokio::io::{AsyncReadExt, AsyncWriteExt};
use tower::{Service, ServiceExt};

use super::*;
use crate::report::{hash_of, Args, Report};

const RULE: &str = "e2e worlds: 1-3 hyperdriver servers (auto/http1/http2 x duplex buffers 1B..64KiB / TCP / Unix, one world in four behind TLS) + public client stack (pool on/off, random pool config); rounds of 4-64 concurrent requests (7 methods, queries, 0-8 extra headers, bodies 0B..256KiB streamed in random chunks with pending injections and with or without an announced length, requests versioned HTTP/1.0, HTTP/1.1 and HTTP/2, chunked responses), cancellations after a random number of polls, HTTP/1 upgrades; every response checked online against the id-derived expectation, client and server logs joined offline; non-trivial = world in which >= 8 requests completed; distinct by (world config, seed)";

const RULE03: &str = "e2e part: the traffic worlds (one in five with a transport whose readiness is a reservation of 1-2 dial slots; every second request drives the service by hand and keeps the readied instance alive until the response): under the paused clock a world whose requests neither complete nor fail is exact (the virtual 1 h timeout fires only when nothing is runnable)";
const RULE04: &str = "e2e part: plain pooled traffic worlds, servers that speak HTTP/2 only and never close: dials per origin and round from the transport log; a burst without cancellations needs one dial per key, and a round whose keys all completed requests earlier needs none (max_idle_per_host > 0)";
const RULE13T: &str = "e2e part: the traffic worlds' server-side request log: a request that arrives on an HTTP/1 connection (also an HTTP/2-versioned one that was given a pooled HTTP/1 connection) carries Host = URI host[:non-default port]; one that arrives on HTTP/2 carries no Host and the URI authority as :authority";

#[derive(Clone, Debug)]
pub struct WorldCfg {
    pub seed: u64,
    pub servers: Vec<(Proto, Net)>,
    pub pool: bool,
    pub max_idle: usize,
    pub cont: bool,
    pub rounds: usize,
    pub per_round: usize,
    pub cancel_pct: u32,
    pub upgrade_pct: u32,
    pub multi_thread: bool,
    pub big_bodies: bool,
    /// every server terminates TLS (fixture CA), origins are https://
    pub tls: bool,
    /// > 0: the transport's readiness is a reservation of one of this many dial slots
    pub slots: usize,
}

/// host names covered by the fixture certificate, by server index
const TLS_HOSTS: [&str; 3] = ["a.test", "b.test", "example.com"];

fn host_of(cfg: &WorldCfg, si: usize) -> String {
    if cfg.tls {
        TLS_HOSTS[si % 3].to_string()
    } else {
        format!("s{si}.test")
    }
}

impl WorldCfg {
    pub fn to_json(&self) -> Value {
        json!({
            "engine": "traffic", "seed": self.seed,
            "servers": self.servers.iter().map(|(p, n)| format!("{p:?}/{n:?}")).collect::<Vec<_>>(),
            "pool": self.pool, "max_idle": self.max_idle, "cont": self.cont, "rounds": self.rounds, "per_round": self.per_round,
            "cancel_pct": self.cancel_pct, "upgrade_pct": self.upgrade_pct, "multi_thread": self.multi_thread, "big_bodies": self.big_bodies, "tls": self.tls, "slots": self.slots,
        })
    }
    pub fn from_json(v: &Value) -> WorldCfg {
        let servers = v["servers"]
            .as_array()
            .unwrap()
            .iter()
            .map(|s| {
                let s = s.as_str().unwrap();
                let (p, n) = s.split_once('/').unwrap();
                let p = match p {
                    "Auto" => Proto::Auto,
                    "H1" => Proto::H1,
                    _ => Proto::H2,
                };
                let n = if n == "Tcp" {
                    Net::Tcp
                } else if n == "Unix" {
                    Net::Unix
                } else {
                    Net::Duplex(n.trim_start_matches("Duplex(").trim_end_matches(')').parse().unwrap_or(1024))
                };
                (p, n)
            })
            .collect();
        WorldCfg {
            seed: v["seed"].as_u64().unwrap_or(1),
            servers,
            pool: v["pool"].as_bool().unwrap_or(true),
            max_idle: v["max_idle"].as_u64().unwrap_or(32) as usize,
            cont: v["cont"].as_bool().unwrap_or(true),
            rounds: v["rounds"].as_u64().unwrap_or(2) as usize,
            per_round: v["per_round"].as_u64().unwrap_or(8) as usize,
            cancel_pct: v["cancel_pct"].as_u64().unwrap_or(0) as u32,
            upgrade_pct: v["upgrade_pct"].as_u64().unwrap_or(0) as u32,
            multi_thread: v["multi_thread"].as_bool().unwrap_or(false),
            big_bodies: v["big_bodies"].as_bool().unwrap_or(false),
            tls: v["tls"].as_bool().unwrap_or(false),
            slots: v["slots"].as_u64().unwrap_or(0) as usize,
        }
    }
}

/// drop the inner future after `after` polls (deterministic cancellation point)
pub struct CancelAfter<F> {
    inner: Option<Pin<Box<F>>>,
    after: u32,
    polls: u32,
}

impl<F: Future> CancelAfter<F> {
    pub fn new(f: F, after: u32) -> Self {
        CancelAfter { inner: Some(Box::pin(f)), after, polls: 0 }
    }
}

impl<F: Future> Future for CancelAfter<F> {
    type Output = Option<F::Output>;
    fn poll(mut self: Pin<&mut Self>, cx: &mut Context<'_>) -> Poll<Self::Output> {
        if self.polls >= self.after {
            self.inner = None;
            return Poll::Ready(None);
        }
        self.polls += 1;
        let r = self.inner.as_mut().unwrap().as_mut().poll(cx);
        match r {
            Poll::Ready(v) => Poll::Ready(Some(v)),
            Poll::Pending => {
                if self.polls >= self.after {
                    self.inner = None;
                    Poll::Ready(None)
                } else {
                    Poll::Pending
                }
            }
        }
    }
}

#[derive(Debug)]
pub enum Outcome {
    Ok,
    Cancelled,
    Failed(String),
    Problems(Vec<(String, String)>),
}

pub struct WorldResult {
    /// per round: (id of its first request, id of its last request, log sequence number when it was over)
    pub rounds: Vec<(u64, u64, u64)>,
    pub outcomes: Vec<(ReqSpec, Outcome)>,
    pub log: Arc<Log>,
    pub hang: bool,
    pub exec: Vec<(usize, usize)>,
}

fn gen_request(rng: &mut StdRng, id: u64, cfg: &WorldCfg) -> (ReqSpec, usize, bool) {
    let si = rng.gen_range(0..cfg.servers.len());
    let (proto, net) = cfg.servers[si];
    let tiny = matches!(net, Net::Duplex(b) if b < 64);
    // upgrades need an HTTP/1 connection: only origins that never see HTTP/2 traffic (a pooled HTTP/2
    // connection would carry the request, and the HTTP/2 checks strip the Upgrade header by design)
    let upgrade = proto == Proto::H1 && rng.gen_range(0..100) < cfg.upgrade_pct;
    let h2 = match proto {
        Proto::H1 => false,
        // behind TLS the connection is HTTP/2 by ALPN whatever version the request carries
        Proto::H2 => !(cfg.tls && rng.gen_bool(0.4)),
        Proto::Auto => !upgrade && !tiny && rng.gen_bool(0.5),
    };
    let methods = [http::Method::GET, http::Method::POST, http::Method::PUT, http::Method::HEAD, http::Method::DELETE, http::Method::OPTIONS, http::Method::PATCH];
    let method = if upgrade { http::Method::GET } else { methods[rng.gen_range(0..methods.len())].clone() };
    let body_len = if upgrade || method == http::Method::HEAD || method == http::Method::GET && rng.gen_bool(0.5) {
        0
    } else {
        match rng.gen_range(0..10) {
            0 => 0,
            1 => 1,
            2..=5 => rng.gen_range(2..2000),
            6..=8 => rng.gen_range(2000..70_000),
            _ => {
                if cfg.big_bodies {
                    rng.gen_range(70_000..262_144)
                } else {
                    rng.gen_range(2000..20_000)
                }
            }
        }
    };
    let chunk = [0usize, 1, 7, 100, 4096, 16_384][rng.gen_range(0..6)];
    let chunk = if body_len > 20_000 && chunk < 100 { 4096 } else { chunk };
    let host = host_of(cfg, si);
    let scheme = if cfg.tls { "https" } else { "http" };
    let spelling = match rng.gen_range(0..6) {
        0 => format!("{scheme}://{}", host.to_ascii_uppercase().replace(".TEST", ".test").replace(".COM", ".com")),
        // every server of a plain world is also reachable under one shared host name, told apart by the port only
        1 | 2 if !cfg.tls => format!("{scheme}://shared.test:{}", 8000 + si),
        _ => format!("{scheme}://{host}"),
    };
    let mut headers: Vec<(String, String)> = (0..rng.gen_range(0..8)).map(|j| (format!("x-c{j}"), format!("val-{id}-{j}-{}", "z".repeat(rng.gen_range(0..40))))).collect();
    if upgrade {
        headers.push(("upgrade".into(), "hdv".into()));
        headers.push(("connection".into(), "upgrade".into()));
    }
    if rng.gen_bool(0.3) {
        headers.push(("x-delay-yields".into(), rng.gen_range(1..20u32).to_string()));
    }
    let chunkable = method != http::Method::GET && method != http::Method::HEAD;
    let spec = ReqSpec {
        id,
        origin: spelling,
        method,
        extra_path: ["", "a/b", "x%20y", "deep/er/path/"][rng.gen_range(0..4)].to_string(),
        query: [None, Some("q=1".to_string()), Some(format!("id={id}&z=%7E"))][rng.gen_range(0..3)].clone(),
        h2,
        body_len,
        chunk,
        pending_every: [0usize, 2, 3][rng.gen_range(0..3)],
        headers,
        resp_chunk: [0usize, 1, 64, 5000][rng.gen_range(0..4)],
        // hyper itself sends no chunked body for GET / HEAD / CONNECT (a body of unknown length is dropped there)
        unsized_body: body_len > 0 && chunkable && rng.gen_bool(0.4) && std::env::var("HDV_NO_UNSIZED").is_err(),
        http10: !h2 && !upgrade && rng.gen_bool(0.15) && std::env::var("HDV_NO_HTTP10").is_err(),
        root_path: if upgrade { 0 } else { [0u8, 0, 0, 0, 0, 0, 0, 0, 1, 2][rng.gen_range(0..10)] },
    };
    (spec, si, upgrade)
}

async fn do_request(client: ClientSvc, spec: ReqSpec, server: usize, upgrade: bool, slow_read: bool) -> Outcome {
    let req = spec.build();
    // every second request drives the service by hand and keeps the instance it made ready alive until the response is
    // there (what a middleware that owns its inner service does); the others go through `oneshot`
    let mut kept_alive = None;
    let resp = if spec.id % 2 == 0 {
        let mut svc = client;
        let fut = match svc.ready().await {
            Ok(s) => s.call(req),
            Err(e) => return Outcome::Failed(format!("{e:?}")),
        };
        let r = fut.await;
        kept_alive = Some(svc);
        r
    } else {
        client.oneshot(req).await
    };
    let resp = match resp {
        Ok(r) => r,
        Err(e) => return Outcome::Failed(format!("{e:?}")),
    };
    drop(kept_alive);
    if upgrade {
        let mut resp = resp;
        if resp.status() != http::StatusCode::SWITCHING_PROTOCOLS {
            return Outcome::Problems(vec![("upgrade-not-switched".into(), format!("request {} got status {}", spec.id, resp.status()))]);
        }
        let hid = resp.headers().get("x-id").and_then(|v| v.to_str().ok()).and_then(|s| s.parse::<u64>().ok());
        if hid != Some(spec.id) {
            return Outcome::Problems(vec![("response-for-another-request".into(), format!("upgrade request {} got 101 with x-id {hid:?}", spec.id))]);
        }
        let upgraded = match hyper::upgrade::on(&mut resp).await {
            Ok(u) => u,
            Err(e) => return Outcome::Failed(format!("upgrade: {e:?}")),
        };
        let mut io = hyperdriver::bridge::io::TokioIo::new(upgraded);
        let out = pattern(spec.id, 200);
        if let Err(e) = io.write_all(&out).await {
            return Outcome::Failed(format!("upgraded write: {e}"));
        }
        // over TLS the record may still sit in the session's buffer if the transport pushed back: flush, or the peer
        // never sees it (a harness stall, not the library's)
        if let Err(e) = io.flush().await {
            return Outcome::Failed(format!("upgraded flush: {e}"));
        }
        let mut back = vec![0u8; 200];
        if let Err(e) = io.read_exact(&mut back).await {
            return Outcome::Failed(format!("upgraded read: {e}"));
        }
        if back != pattern(spec.id ^ 0x55, 200) {
            return Outcome::Problems(vec![("upgraded-stream-carries-foreign-bytes".into(), format!("upgraded stream of request {} returned bytes that were not produced for it", spec.id))]);
        }
        let _ = io.shutdown().await;
        return Outcome::Ok;
    }
    let (parts, mut body) = resp.into_parts();
    let mut data = Vec::new();
    loop {
        match body.frame().await {
            None => break,
            Some(Ok(f)) => {
                if let Ok(d) = f.into_data() {
                    data.extend_from_slice(&d);
                }
                if slow_read {
                    tokio::task::yield_now().await;
                }
            }
            Some(Err(e)) => return Outcome::Failed(format!("response body: {e:?}")),
        }
    }
    let problems = check_response(&spec, Some(server), parts.status, &parts.headers, &data);
    if problems.is_empty() {
        Outcome::Ok
    } else {
        Outcome::Problems(problems)
    }
}

pub async fn run_world_async(cfg: WorldCfg) -> WorldResult {
    let mut rng = StdRng::seed_from_u64(cfg.seed);
    let log = Arc::new(Log::default());
    let gates = Gates::default();
    // one world in five: the transport's readiness is a reservation of one of 1-2 dial slots
    let slots = if cfg.slots > 0 { Some(Slots::new(cfg.slots)) } else { None };
    let routes = Routes { log: log.clone(), slots, ..Default::default() };
    let mut servers = Vec::new();
    for (i, (proto, net)) in cfg.servers.iter().enumerate() {
        let tls = if cfg.tls {
            let alpn: &[&str] = match proto {
                Proto::H1 => &["http/1.1"],
                Proto::H2 => &["h2"],
                Proto::Auto => &["h2", "http/1.1"],
            };
            Some(Arc::new(server_tls("good", alpn)))
        } else {
            None
        };
        let h = spawn_upgrade_capable_server(i, *proto, *net, tls, log.clone(), gates.clone()).await;
        routes.add(&host_of(&cfg, i), h.target.clone());
        if !cfg.tls {
            routes.add(&format!("shared.test:{}", 8000 + i), h.target.clone());
        }
        servers.push(h);
    }
    let pool = if cfg.pool {
        let mut p = hyperdriver::client::PoolConfig::default();
        p.max_idle_per_host = cfg.max_idle;
        p.continue_after_preemption = cfg.cont;
        p.idle_timeout = None;
        Some(p)
    } else {
        None
    };
    PROTOCOL_PENDING_POLLS.with(|p| p.set((cfg.seed % 3) as usize));
    BUILDER_TLS_BEFORE_BODY.with(|p| p.set(cfg.seed % 2 == 1));
    let client = build_client(routes.clone(), pool, if cfg.tls { Some(client_tls(&["h2", "http/1.1"])) } else { None }, None);
    PROTOCOL_PENDING_POLLS.with(|p| p.set(0));
    BUILDER_TLS_BEFORE_BODY.with(|p| p.set(false));
    let mut outcomes = Vec::new();
    let mut next_id = 1u64 + (cfg.seed % 1000) * 1_000_000;
    let mut hang = false;
    let mut rounds = Vec::new();
    for _round in 0..cfg.rounds {
        let first_id = next_id;
        let mut futs = FuturesUnordered::new();
        for _ in 0..cfg.per_round {
            let (spec, si, upgrade) = gen_request(&mut rng, next_id, &cfg);
            next_id += 1;
            let cancel = rng.gen_range(0..100) < cfg.cancel_pct;
            let after = if cancel { rng.gen_range(0..12u32) } else { u32::MAX };
            let slow = rng.gen_bool(0.3);
            let c = client.clone();
            let s2 = spec.clone();
            let fut = CancelAfter { inner: Some(Box::pin(do_request(c, s2, si, upgrade, slow))), after, polls: 0 };
            futs.push(async move { (spec, fut.await) });
        }
        let all = async {
            let mut v = Vec::new();
            while let Some((spec, r)) = futs.next().await {
                v.push((
                    spec,
                    match r {
                        None => Outcome::Cancelled,
                        Some(o) => o,
                    },
                ));
            }
            v
        };
        let limit = if cfg.multi_thread { Duration::from_secs(60) } else { Duration::from_secs(3600) };
        match tokio::time::timeout(limit, all).await {
            Ok(v) => outcomes.extend(v),
            Err(_) => {
                hang = true;
                break;
            }
        }
        // let released connections find their way back into the pool before the next round
        for _ in 0..20 {
            tokio::task::yield_now().await;
        }
        rounds.push((first_id, next_id - 1, log.next()));
    }
    drop(client);
    for _ in 0..50 {
        tokio::task::yield_now().await;
    }
    let exec = servers.iter().map(|s| (s.exec.spawned.load(std::sync::atomic::Ordering::SeqCst), s.exec.finished.load(std::sync::atomic::Ordering::SeqCst))).collect();
    for s in servers.iter_mut() {
        s.join.abort();
    }
    WorldResult { rounds, outcomes, log, hang, exec }
}

/// like `spawn_server`, with a handler that also answers `Upgrade: hdv` requests
async fn spawn_upgrade_capable_server(id: usize, proto: Proto, net: Net, tls: Option<Arc<rustls::ServerConfig>>, log: Arc<Log>, gates: Gates) -> ServerHandle {
    spawn_server(ServerSpec { id, proto, net, tls, graceful: false, sni_validation: false }, log, gates).await
}

pub fn run_world(cfg: &WorldCfg) -> WorldResult {
    if cfg.multi_thread {
        let rt = tokio::runtime::Builder::new_multi_thread().worker_threads(4).enable_all().build().unwrap();
        let r = rt.block_on(run_world_async(cfg.clone()));
        rt.shutdown_timeout(Duration::from_millis(200));
        r
    } else {
        let rt = tokio::runtime::Builder::new_current_thread().enable_all().start_paused(true).build().unwrap();
        rt.block_on(run_world_async(cfg.clone()))
    }
}

pub fn judge(cfg: &WorldCfg, res: &WorldResult, rep: &mut Report, args: &Args) {
    let replay = cfg.to_json();
    let handled = res.log.handled.lock().unwrap().clone();
    let completed = res.outcomes.iter().filter(|(_, o)| matches!(o, Outcome::Ok)).count();
    if args.wants("C01") {
        let p = rep.prop("C01", RULE);
        p.eval(if completed >= 8 { Some(hash_of(&format!("{replay}"))) } else { None });
        p.count("requests_completed_ok", completed as u64);
        p.count("requests_cancelled", res.outcomes.iter().filter(|(_, o)| matches!(o, Outcome::Cancelled)).count() as u64);
        p.count("requests_upgraded", res.outcomes.iter().filter(|(s, o)| matches!(o, Outcome::Ok) && s.headers.iter().any(|(k, _)| k == "upgrade")).count() as u64);
        p.count("requests_h2", res.outcomes.iter().filter(|(s, _)| s.h2).count() as u64);
        p.count("requests_h1", res.outcomes.iter().filter(|(s, _)| !s.h2).count() as u64);
        p.count("request_body_bytes", res.outcomes.iter().map(|(s, _)| s.body_len as u64).sum());
        p.count("server_handler_invocations", handled.len() as u64);
        p.count("dials", res.log.dials.lock().unwrap().len() as u64);
        p.count(if cfg.multi_thread { "worlds_multi_thread" } else { "worlds_current_thread_paused" }, 1);
        if cfg.tls {
            p.count("worlds_tls", 1);
            p.count("requests_completed_ok_over_tls", completed as u64);
        }
        p.count("requests_root_path_with_query", res.outcomes.iter().filter(|(s, o)| s.root_path != 0 && matches!(o, Outcome::Ok)).count() as u64);
        p.count("requests_to_shared_host_by_port", res.outcomes.iter().filter(|(s, o)| s.origin.contains("shared.test") && matches!(o, Outcome::Ok)).count() as u64);
        p.count("requests_unsized_body", res.outcomes.iter().filter(|(s, o)| s.unsized_body && matches!(o, Outcome::Ok)).count() as u64);
        p.count("requests_versioned_http10", res.outcomes.iter().filter(|(s, o)| s.http10 && matches!(o, Outcome::Ok)).count() as u64);
        for (_, n) in cfg.servers.iter() {
            p.count(&format!("worlds_with_{}", match n { Net::Duplex(_) => "duplex", Net::Tcp => "tcp", Net::Unix => "unix" }), 1);
        }
        if res.hang {
            if cfg.multi_thread {
                p.inconclusive.push(format!("wall-clock watchdog fired in a real-socket world {replay}"));
            } else {
                p.violation("request-never-completes", format!("world did not reach completion although nothing can make progress any more (virtual 1h timeout fired) {replay}"), replay.clone());
            }
        }
        for (spec, o) in &res.outcomes {
            match o {
                Outcome::Ok | Outcome::Cancelled => {}
                Outcome::Failed(e) => {
                    let class = if e.contains("Canceled") || e.contains("canceled") {
                        "canceled"
                    } else if e.contains("Closed") || e.contains("closed") {
                        "closed"
                    } else if e.contains("Unavailable") {
                        "unavailable"
                    } else {
                        "other"
                    };
                    p.violation(
                        format!("uncancelled-request-failed:{class}:{}", if spec.h2 { "h2" } else { "h1" }),
                        format!("request {} ({} {} h2={}) failed although it was not cancelled and no peer broke its connection: {e} | world {replay}", spec.id, spec.method, spec.path_query(), spec.h2),
                        replay.clone(),
                    );
                }
                Outcome::Problems(ps) => {
                    for (sig, msg) in ps {
                        p.violation(sig.clone(), format!("{msg} | world {replay}"), replay.clone());
                    }
                }
            }
            // offline join
            let hs: Vec<&Handled> = handled.iter().filter(|h| h.header_id == Some(spec.id) || h.path_id == Some(spec.id)).collect();
            if matches!(o, Outcome::Ok) && hs.len() != 1 {
                p.violation("request-handled-wrong-number-of-times", format!("request {} completed but was handled {} times | world {replay}", spec.id, hs.len()), replay.clone());
            }
            if hs.len() > 1 {
                p.violation("request-handled-more-than-once", format!("request {} was handled {} times | world {replay}", spec.id, hs.len()), replay.clone());
            }
            for h in hs {
                for (sig, msg) in check_handled(spec, h) {
                    p.violation(sig, format!("{msg} | world {replay}"), replay.clone());
                }
            }
        }
        if p.samples.len() < 3 && completed >= 8 {
            p.sample(json!({"world": replay, "completed": completed, "handled": handled.len(), "dials": res.log.dials.lock().unwrap().len(), "first_request": res.outcomes.first().map(|(s, o)| format!("{} {}{} h2={} body={}B -> {:?}", s.method, s.origin, s.path_query(), s.h2, s.body_len, o))}));
        }
    }
    if args.wants("C03") {
        let p = rep.prop("C03", RULE03);
        p.eval(if completed >= 8 { Some(hash_of(&format!("{replay}"))) } else { None });
        p.count("e2e_requests_resolved", res.outcomes.len() as u64);
        if cfg.slots > 0 {
            p.count("e2e_worlds_with_reserving_transport", 1);
        }
        if res.hang {
            if cfg.multi_thread {
                p.inconclusive.push(format!("wall-clock watchdog fired in a real-socket world {replay}"));
            } else {
                p.violation("e2e:request-never-resolves", format!("requests of the world neither completed nor failed although nothing can make progress any more (virtual 1h timeout fired) {replay}"), replay.clone());
            }
        }
    }
    if args.wants("C04") && cfg.pool && !cfg.tls && !res.hang {
        let p = rep.prop("C04", RULE04);
        let dials = res.log.dials.lock().unwrap().clone();
        let lower = |origin: &str| origin.split_once("://").map(|(_, a)| a).unwrap_or(origin).to_ascii_lowercase();
        for (si, (proto, _)) in cfg.servers.iter().enumerate() {
            if *proto != Proto::H2 {
                continue;
            }
            // requests to this server (all of them HTTP/2 by prior knowledge), by round
            let hosts = [host_of(cfg, si), format!("shared.test:{}", 8000 + si)];
            for a in hosts.iter().map(|h| h.to_ascii_lowercase()) {
                let mut established: std::collections::BTreeSet<String> = Default::default();
                let mut prev_end = 0u64;
                for (r, (first, last, end)) in res.rounds.iter().enumerate() {
                    let in_round: Vec<&(ReqSpec, Outcome)> = res.outcomes.iter().filter(|(s, _)| s.id >= *first && s.id <= *last && lower(&s.origin) == a).collect();
                    let spellings: std::collections::BTreeSet<String> = in_round.iter().map(|(s, _)| s.origin.clone()).collect();
                    let n_dials = dials.iter().filter(|d| d.authority == a && d.seq > prev_end && d.seq <= *end).count();
                    if !in_round.is_empty() {
                        p.eval(Some(hash_of(&format!("{replay}{a}{r}"))));
                        p.count("e2e_h2_origin_rounds_judged", 1);
                    }
                    // (A) nobody is cancelled: the first request of a key dials, the others wait for that attempt or find
                    //     its connection registered with the pool. (Only with max_idle_per_host > 0: with 0 the pool keeps no
                    //     handle of its own, and requests are not guaranteed to be polled for the first time before an
                    //     earlier one's connection is up - FuturesUnordered hands control back after two self-wakes - so a
                    //     late starter legitimately finds nothing and dials. The burst with 0 is judged deterministically
                    //     by the clientapi engine, behind a gated dial.)
                    if cfg.cancel_pct == 0 && cfg.max_idle > 0 && n_dials > spellings.len() {
                        p.violation("e2e:h2-origin-dialed-more-than-once-in-a-burst", format!("round {r}: {} HTTP/2 requests to {a} ({} spellings) caused {n_dials} dials | world {replay}", in_round.len(), spellings.len()), replay.clone());
                    }
                    // (B) every key used in this round already has a healthy HTTP/2 connection in the pool
                    if cfg.max_idle > 0 && !spellings.is_empty() && spellings.iter().all(|s| established.contains(s)) && n_dials > 0 {
                        p.violation("e2e:h2-origin-dialed-again-although-a-healthy-connection-is-pooled", format!("round {r}: {n_dials} dial(s) to {a} although every spelling used ({spellings:?}) completed requests in an earlier round and the peer never closes | world {replay}"), replay.clone());
                    }
                    for (s, o) in &in_round {
                        if matches!(o, Outcome::Ok) {
                            established.insert(s.origin.clone());
                        }
                    }
                    prev_end = *end;
                }
            }
        }
    }
    if args.wants("C13") {
        let p = rep.prop("C13", RULE13T);
        for (spec, _) in &res.outcomes {
            for h in handled.iter().filter(|h| h.header_id == Some(spec.id)) {
                p.eval(Some(hash_of(&format!("{replay}{}", spec.id))));
                let (scheme, authority) = spec.origin.split_once("://").unwrap_or(("http", spec.origin.as_str()));
                let default_port = if scheme.eq_ignore_ascii_case("https") { ":443" } else { ":80" };
                let want = authority.strip_suffix(default_port).unwrap_or(authority);
                if h.version == "HTTP/2.0" {
                    p.count("e2e_h2_requests_seen_by_servers", 1);
                    if h.host_header.is_some() {
                        p.violation("e2e:h2-host-header-present", format!("request {} to {}: handler saw Host {:?} on an HTTP/2 request | world {replay}", spec.id, spec.origin, h.host_header), replay.clone());
                    }
                    if !h.authority.as_deref().map(|x| x.eq_ignore_ascii_case(authority)).unwrap_or(false) {
                        p.violation("e2e:h2-authority-altered", format!("request {} to {}: handler saw :authority {:?} | world {replay}", spec.id, spec.origin, h.authority), replay.clone());
                    }
                } else {
                    p.count("e2e_h1_requests_seen_by_servers", 1);
                    if spec.h2 {
                        p.count("e2e_h2_versioned_requests_carried_by_an_h1_connection", 1);
                    }
                    match &h.host_header {
                        None => p.violation("e2e:h1-host-header-missing", format!("request {} ({:?} as written by the caller) to {} arrived on an HTTP/1 connection without a Host header | world {replay}", spec.id, if spec.h2 { "HTTP/2" } else { "HTTP/1.x" }, spec.origin), replay.clone()),
                        Some(got) if !got.eq_ignore_ascii_case(want) => p.violation("e2e:h1-host-header-wrong", format!("request {} to {}: Host {got:?}, want {want:?} | world {replay}", spec.id, spec.origin), replay.clone()),
                        _ => {}
                    }
                }
            }
        }
    }
    if args.wants("C02") {
        let p = rep.prop("C02", "e2e part: server-side handler log of the traffic worlds; two requests inside the handler of one HTTP/1 server connection at the same time = the client put two requests on one non-multiplexed connection; non-trivial = world with >= 8 completed requests");
        p.eval(if completed >= 8 { Some(hash_of(&format!("{replay}"))) } else { None });
        p.count("e2e_handler_invocations", handled.len() as u64);
        for o in res.log.overlaps.lock().unwrap().iter() {
            p.violation("e2e:two-requests-on-one-h1-connection", format!("{o} | world {replay}"), replay.clone());
        }
    }
}

pub fn gen_worlds(seed: u64, n: usize, thorough: bool) -> Vec<WorldCfg> {
    let mut rng = StdRng::seed_from_u64(seed ^ 0x7ea);
    let mut v = Vec::new();
    for i in 0..n {
        let multi = i % 4 == 3;
        let tls = i % 5 == 1 || i % 20 == 3;
        let ns = rng.gen_range(1..=3usize);
        let servers = (0..ns)
            .map(|_| {
                let proto = [Proto::Auto, Proto::Auto, Proto::H1, Proto::H2][rng.gen_range(0..4)];
                let net = if multi {
                    [Net::Tcp, Net::Unix, Net::Duplex(4096)][rng.gen_range(0..3)]
                } else {
                    Net::Duplex([1usize, 2, 17, 256, 1024, 4096, 65_536][rng.gen_range(0..7)])
                };
                // TLS worlds: no tiny pipes (a handshake over a 1-byte pipe only costs time)
                let net = if tls && matches!(net, Net::Duplex(b) if b < 256) { Net::Duplex(256) } else { net };
                // hyper's HTTP/2 over a tokio duplex pipe smaller than ~32 bytes never completes its handshake (probed
                // with plain hyper and an independent bridge: not hyperdriver's doing), so tiny pipes carry HTTP/1 only
                // (auto-detecting servers on tiny pipes get HTTP/1.1 requests only, see gen_request)
                let proto = if matches!(net, Net::Duplex(b) if b < 64) && proto == Proto::H2 { Proto::H1 } else { proto };
                (proto, net)
            })
            .collect::<Vec<_>>();
        let tiny = servers.iter().any(|(_, n)| matches!(n, Net::Duplex(b) if *b < 100));
        v.push(WorldCfg {
            seed: rng.gen(),
            servers,
            pool: rng.gen_range(0..10) != 0,
            max_idle: [0usize, 1, 2, 32][rng.gen_range(0..4)],
            cont: rng.gen_bool(0.5),
            rounds: rng.gen_range(2..5),
            per_round: if tiny { rng.gen_range(4..12) } else if thorough { rng.gen_range(4..128) } else { rng.gen_range(4..48) },
            cancel_pct: [0u32, 0, 10, 30][rng.gen_range(0..4)],
            upgrade_pct: [0u32, 5, 20][rng.gen_range(0..3)],
            multi_thread: multi,
            big_bodies: !tiny && (rng.gen_bool(0.3) || tls && rng.gen_bool(0.5)),
            tls,
            slots: if i % 5 == 2 { 1 + (i / 5) % 2 } else { 0 },
        });
    }
    v
}

pub fn run(args: &Args) -> Report {
    let mut rep = Report::new("traffic");
    if let Some(path) = &args.replay {
        let v: Value = serde_json::from_str(&std::fs::read_to_string(path).unwrap()).unwrap();
        let cfg = WorldCfg::from_json(&v["replay"]);
        let res = run_world(&cfg);
        for (s, o) in &res.outcomes {
            if !matches!(o, Outcome::Ok | Outcome::Cancelled) {
                println!("request {} {} {}{} -> {:?}", s.id, s.method, s.origin, s.path_query(), o);
            }
        }
        judge(&cfg, &res, &mut rep, args);
        return rep;
    }
    let n = args.extra_u64("worlds", if args.tier_thorough { 1500 } else { 64 }) as usize;
    let worlds = gen_worlds(args.seed, n, args.tier_thorough);
    let wr = &worlds;
    let threads = (args.threads / 2).max(2);
    let part = crate::report::parallel(threads, worlds.len() as u64, "traffic", |i, r| {
        let cfg = &wr[i as usize];
        let res = run_world(cfg);
        judge(cfg, &res, r, args);
    });
    rep.merge(part);
    if let Some(p) = rep.props.get_mut("C01") {
        p.assume("peers are hyperdriver/hyper servers that never break a connection; bodies up to 256 KiB; one world in four terminates TLS at the servers (fixture CA)");
        p.assume("in paused-clock duplex worlds a hang is exact (virtual 1h timeout fires only when nothing is runnable); in real-socket worlds a 60 s wall-clock watchdog is inconclusive");
    }
    rep
}
