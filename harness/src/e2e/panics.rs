//! C17 — no request value makes the client panic.
//!
//! Requests from a grammar (every http::Version constant, standard and extension methods, absolute / origin /
//! authority / asterisk URI forms, DNS / IPv4 / IPv6 / unusual-but-legal hosts) are sent through the public
//! `Client` stack, `ConnectionPoolService` (with and without pool, with and without the check layers) and
//! `ConnectorService`, over plain and TLS transports, against an echo server, a peer that closes at once and
//! a peer that never accepts. A process-wide panic hook records every panic (caller's task or spawned task).

use std::sync::{Arc, Mutex, OnceLock};
use std::time::Duration;

use http_body_util::BodyExt;
use serde_json::{json, Value};
use tower::{Layer, Service, ServiceExt};

use super::*;
use crate::report::{hash_of, Args, Report};

const RULE: &str = "request grammar: version {0.9,1.0,1.1,2,3} x method {GET,POST,HEAD,OPTIONS,CONNECT,PURGE} x URI form {absolute (http/https/ws/wss/other scheme, mixed case), origin-form, authority-form, asterisk} x host {DNS, upper case, underscore, IPv4, [IPv6], a..b, -, sub-delims, 1.2.3.4.5, 253 chars} x port {none, 80, 443, 0, 65535} x path/query, through {Client stack with pool, Client stack without pool, bare ConnectionPoolService, ConnectorService with and without check layers} x {plain, TLS} x peer {echo, closes at once, never accepts}; oracle = process-wide panic hook (message + location) observed per request, both build profiles; non-trivial = every case; distinct by case";

static PANICS: OnceLock<Mutex<Vec<String>>> = OnceLock::new();

pub fn install_hook() {
    PANICS.get_or_init(|| Mutex::new(Vec::new()));
    std::panic::set_hook(Box::new(|info| {
        let loc = info.location().map(|l| format!("{}:{}", l.file(), l.line())).unwrap_or_else(|| "unknown".into());
        let msg = info.payload().downcast_ref::<&str>().map(|s| s.to_string()).or_else(|| info.payload().downcast_ref::<String>().cloned()).unwrap_or_default();
        let thread = std::thread::current().name().unwrap_or("?").to_string();
        PANICS.get().unwrap().lock().unwrap().push(format!("{loc} :: {msg} :: thread {thread}"));
    }));
}

fn drain_panics() -> Vec<String> {
    std::mem::take(&mut *PANICS.get().unwrap().lock().unwrap())
}

#[derive(Clone, Debug, Hash)]
pub struct Case {
    pub version: u8,
    pub method: &'static str,
    pub uri: String,
    pub uri_class: &'static str,
    pub host_class: &'static str,
    pub path: &'static str,
    pub tls: bool,
    pub peer: &'static str,
    /// extra header set: "" or a name from HEADER_SETS
    pub headers: &'static str,
    /// pool configuration: "" (default, one request) or a name from POOL_CFGS (then three requests in a row go through
    /// the same service, so that the idle list is consulted with entries in it)
    pub pool_cfg: &'static str,
}

pub const POOL_CFGS: [&str; 6] = ["idle-timeout-max", "idle-timeout-zero", "idle-timeout-1ns", "idle-timeout-none", "max-idle-0", "max-idle-max"];

fn pool_cfg_of(name: &str) -> hyperdriver::client::PoolConfig {
    let mut p = hyperdriver::client::PoolConfig::default();
    match name {
        "idle-timeout-max" => p.idle_timeout = Some(Duration::MAX),
        "idle-timeout-zero" => p.idle_timeout = Some(Duration::ZERO),
        "idle-timeout-1ns" => p.idle_timeout = Some(Duration::from_nanos(1)),
        "idle-timeout-none" => p.idle_timeout = None,
        "max-idle-0" => p.max_idle_per_host = 0,
        "max-idle-max" => p.max_idle_per_host = usize::MAX,
        _ => {}
    }
    p
}

/// header sets: well-typed `HeaderValue`s need not be visible ASCII
pub const HEADER_SETS: [(&str, &[(&str, &[u8])]); 10] = [
    ("connection-repeated-bad-first", &[("connection", b"\xfa"), ("connection", b"keep-alive")]),
    ("connection-repeated-good-first", &[("connection", b"keep-alive"), ("connection", b"\xfa"), ("connection", b"close")]),
    ("te-repeated", &[("te", b"trailers"), ("te", b"\xfa"), ("connection", b"te")]),
    ("connection-non-ascii", &[("connection", b"\xff")]),
    ("connection-latin1-list", &[("connection", b"keep-alive, ferm\xe9"), ("keep-alive", b"timeout=5")]),
    ("te-non-ascii", &[("te", b"\xfftrailers")]),
    ("host-non-ascii", &[("host", b"ex\xe4mple.com")]),
    ("upgrade-and-connection", &[("connection", b"upgrade"), ("upgrade", b"\xfe\xff")]),
    ("transfer-encoding-odd", &[("transfer-encoding", b"chunked, \x80")]),
    ("many-values", &[("x-a", b"\x80\x81"), ("content-type", b"text/\xe9"), ("accept", b"*/*\xfd")]),
];

impl Case {
    fn to_json(&self) -> Value {
        json!({"engine": "panics", "version": self.version, "method": self.method, "uri": self.uri, "via": self.path, "tls": self.tls, "peer": self.peer, "headers": self.headers, "pool_cfg": self.pool_cfg})
    }
}

fn version_of(v: u8) -> http::Version {
    match v {
        9 => http::Version::HTTP_09,
        10 => http::Version::HTTP_10,
        11 => http::Version::HTTP_11,
        2 => http::Version::HTTP_2,
        _ => http::Version::HTTP_3,
    }
}

pub const VIAS: [&str; 7] = ["client-pool", "client-nopool", "bare-pool-service", "connector-with-checks", "connector-bare", "connector-bare-tcp", "bare-pool-service-tcp"];

/// resolver for the real `TcpTransport`: every name is 127.0.0.1 (the port comes from the URI)
#[derive(Clone)]
pub struct Loopback;
impl tower::Service<Box<str>> for Loopback {
    type Response = hyperdriver::client::conn::dns::SocketAddrs;
    type Error = std::io::Error;
    type Future = std::future::Ready<Result<Self::Response, std::io::Error>>;
    fn poll_ready(&mut self, _cx: &mut std::task::Context<'_>) -> std::task::Poll<Result<(), Self::Error>> {
        std::task::Poll::Ready(Ok(()))
    }
    fn call(&mut self, _host: Box<str>) -> Self::Future {
        std::future::ready(Ok(["127.0.0.1:1".parse::<std::net::SocketAddr>().unwrap()].into_iter().collect()))
    }
}

pub fn uris() -> Vec<(String, &'static str, &'static str)> {
    let mut v: Vec<(String, &'static str, &'static str)> = Vec::new();
    let long = format!("{}.test", "a".repeat(240));
    let hosts: Vec<(String, &'static str)> = vec![
        ("example.com".into(), "dns"),
        ("EXAMPLE.Com".into(), "dns-upper"),
        ("under_score.test".into(), "dns-underscore"),
        ("example.com.".into(), "dns-trailing-dot"),
        ("127.0.0.1".into(), "ipv4"),
        ("[::1]".into(), "ipv6"),
        ("[2001:db8::1]".into(), "ipv6"),
        ("[v1.fe80::a+en1]".into(), "bracketed-non-ip"),
        ("[::1::1]".into(), "bracketed-non-ip"),
        ("[::g]".into(), "bracketed-non-ip"),
        ("a..b".into(), "unusual-empty-label"),
        ("-".into(), "unusual-dash"),
        ("a!$&'()*+,;=b".into(), "unusual-sub-delims"),
        ("1.2.3.4.5".into(), "unusual-five-octets"),
        (long, "dns-very-long"),
    ];
    for scheme in ["http", "https", "ws", "wss", "ftp", "HTTPS", "WSS", "x-custom+scheme"] {
        for (h, hc) in &hosts {
            for port in ["", ":80", ":443", ":0", ":65535"] {
                if !port.is_empty() && *hc != "dns" && *hc != "ipv6" && *hc != "ipv4" {
                    continue;
                }
                for pq in ["", "/", "/a/b?x=1", "/%7E?", "?only=query"] {
                    if !pq.is_empty() && pq != "/a/b?x=1" && (*hc != "dns" || !port.is_empty()) {
                        continue;
                    }
                    v.push((format!("{scheme}://{h}{port}{pq}"), "absolute", hc));
                }
            }
        }
    }
    for o in ["/", "/just/a/path?q=1", "/%41"] {
        v.push((o.to_string(), "origin-form", "none"));
    }
    for a in ["example.com:443", "127.0.0.1:80", "[::1]:8080", "localhost:0", "localhost", "example.com", "[::1]", "127.0.0.1"] {
        v.push((a.to_string(), "authority-form", "dns"));
    }
    v.push(("*".to_string(), "asterisk", "none"));
    v
}

pub fn gen_cases(thorough: bool) -> Vec<Case> {
    let mut v = Vec::new();
    let us = uris();
    for (i, (uri, uc, hc)) in us.iter().enumerate() {
        for version in [9u8, 10, 11, 2, 3] {
            for (mi, method) in ["GET", "POST", "HEAD", "OPTIONS", "CONNECT", "PURGE"].into_iter().enumerate() {
                for (vi, via) in VIAS.into_iter().enumerate() {
                    for tls in [false, true] {
                        for (pi, peer) in ["echo", "close", "never-accepts"].into_iter().enumerate() {
                            // full product for the echo peer; the other peers and TLS on a rotating subset
                            let k = i + mi + vi + pi + version as usize;
                            let keep = thorough || (peer == "echo" && !tls && (uc != &"absolute" || k % 3 == 0)) || k % 17 == 0 || (*hc == "bracketed-non-ip" && peer == "echo" && k % 2 == 0);
                            if keep {
                                v.push(Case { version, method, uri: uri.clone(), uri_class: uc, host_class: hc, path: via, tls, peer, headers: "", pool_cfg: "" });
                            }
                        }
                    }
                }
            }
        }
    }
    // header sets whose values are legal HeaderValues but not visible ASCII, on a few URIs, every via and version
    for (name, _) in HEADER_SETS {
        for uri in ["http://example.com/a/b?x=1", "https://example.com/", "http://[::1]:8080/"] {
            for version in [10u8, 11, 2] {
                for via in VIAS {
                    for method in ["GET", "POST", "CONNECT"] {
                        for tls in [false, true] {
                            if !thorough && (tls != uri.starts_with("https") || method == "CONNECT" && version != 2) {
                                continue;
                            }
                            v.push(Case { version, method, uri: uri.to_string(), uri_class: "absolute", host_class: "dns", path: via, tls, peer: "echo", headers: name, pool_cfg: "" });
                        }
                    }
                }
            }
        }
    }
    // pool configurations at the edges of their domains: three requests in a row through one pooled service
    for pc in POOL_CFGS {
        for uri in ["http://example.com/a/b?x=1", "https://example.com/"] {
            for version in [11u8, 2] {
                for via in ["client-pool", "bare-pool-service"] {
                    for peer in ["echo", "close"] {
                        let tls = uri.starts_with("https");
                        v.push(Case { version, method: "GET", uri: uri.to_string(), uri_class: "absolute", host_class: "dns", path: via, tls, peer, headers: "", pool_cfg: pc });
                    }
                }
            }
        }
    }
    v
}

/// a transport that ignores the URI entirely (so that every URI form reaches the deeper layers)
#[derive(Clone)]
pub struct AnyRoute {
    pub target: Option<Target>,
}

impl tower::Service<http::request::Parts> for AnyRoute {
    type Response = TapIo;
    type Error = RouteError;
    type Future = std::pin::Pin<Box<dyn std::future::Future<Output = Result<TapIo, RouteError>> + Send>>;
    fn poll_ready(&mut self, _cx: &mut std::task::Context<'_>) -> std::task::Poll<Result<(), Self::Error>> {
        std::task::Poll::Ready(Ok(()))
    }
    fn call(&mut self, _parts: http::request::Parts) -> Self::Future {
        let t = self.target.clone();
        Box::pin(async move {
            match t {
                None => std::future::pending().await,
                Some(Target::Duplex(c, b)) => c.connect(b).await.map(|s| TapIo::new(s.into(), None)).map_err(|e| RouteError(e.to_string())),
                Some(_) => Err(RouteError("unsupported".into())),
            }
        })
    }
}

pub async fn run_case(c: &Case) -> (String, Vec<String>) {
    use hyperdriver::client::conn::protocol::auto::HttpConnectionBuilder;
    use hyperdriver::client::conn::transport::TransportExt as _;
    use hyperdriver::service::{Http1ChecksLayer, Http2ChecksLayer, RequestExecutor, SetHostHeaderLayer};
    let log = Arc::new(Log::default());
    let gates = Gates::default();
    let mut _server = None;
    let target = match c.peer {
        "echo" => {
            let tls = if c.tls { Some(Arc::new(server_tls("good", &["h2", "http/1.1"]))) } else { None };
            let h = spawn_server(ServerSpec { id: 0, proto: Proto::Auto, net: Net::Duplex(8192), tls, graceful: false, sni_validation: false }, log.clone(), gates.clone()).await;
            let t = h.target.clone();
            _server = Some(h);
            Some(t)
        }
        "close" => {
            let (client, mut incoming) = hyperdriver::stream::duplex::pair();
            tokio::spawn(async move {
                use futures_util::StreamExt;
                while let Some(Ok(io)) = incoming.next().await {
                    drop(io);
                }
            });
            Some(Target::Duplex(client, 1024))
        }
        _ => None,
    };
    let transport = AnyRoute { target };
    let uri: http::Uri = match c.uri.parse() {
        Ok(u) => u,
        Err(_) => return ("uri-rejected-by-http-crate".into(), vec![]),
    };
    let c_req = c.clone();
    let mk_req = move || {
        let c = &c_req;
        let uri = uri.clone();
        let mut r = http::Request::new(ChunkBody::new(pattern(9, if c.method == "POST" { 50 } else { 0 }), 0, 0));
        *r.method_mut() = http::Method::from_bytes(c.method.as_bytes()).unwrap();
        *r.uri_mut() = uri;
        *r.version_mut() = version_of(c.version);
        r.headers_mut().insert("x-id", http::HeaderValue::from(9u64));
        if let Some((_, set)) = HEADER_SETS.iter().find(|(n, _)| *n == c.headers) {
            for (k, v) in set.iter() {
                if let Ok(hv) = http::HeaderValue::from_bytes(v) {
                    r.headers_mut().append(http::header::HeaderName::from_static(k), hv);
                }
            }
        }
        r
    };
    let req = mk_req();
    let repeat = if c.pool_cfg.is_empty() { 1 } else { 3 };
    let pool_cfg = pool_cfg_of(c.pool_cfg);
    let tls_cfg = if c.tls { Some(client_tls(&["h2", "http/1.1"])) } else { None };
    let via = c.path;
    let fut = async move {
        let out: Result<http::StatusCode, String> = match via {
            "client-pool" | "client-nopool" => {
                let b = hyperdriver::Client::builder().with_transport(transport).with_protocol(HttpConnectionBuilder::<ChunkBody>::default()).with_body::<ChunkBody, Body>().with_timeout(Duration::from_secs(5));
                let b = if via == "client-pool" { b.with_pool(pool_cfg.clone()) } else { b.without_pool() };
                let b = match tls_cfg {
                    Some(t) => b.with_tls(t),
                    None => b.without_tls(),
                };
                let svc = b.build_service();
                let mut last = Err("no request sent".to_string());
                let mut first = Some(req);
                for _ in 0..repeat {
                    let req = first.take().unwrap_or_else(&mk_req);
                    last = match svc.clone().oneshot(req).await {
                        Ok(resp) => {
                            let st = resp.status();
                            let _ = resp.into_body().collect().await;
                            Ok(st)
                        }
                        Err(e) => Err(format!("{e:?}")),
                    };
                    // let the connection find its way back into the pool
                    for _ in 0..10 {
                        tokio::task::yield_now().await;
                    }
                }
                last
            }
            "connector-bare-tcp" | "bare-pool-service-tcp" => {
                // the real TCP transport (host/port extraction, resolver, happy eyeballs) against loopback
                let mut cfg = hyperdriver::client::conn::transport::tcp::TcpTransportConfig::default();
                cfg.connect_timeout = Some(Duration::from_secs(2));
                cfg.happy_eyeballs_timeout = Some(Duration::from_secs(1));
                let tcp: hyperdriver::client::conn::transport::tcp::TcpTransport<Loopback, hyperdriver::stream::tcp::TcpStream> =
                    hyperdriver::client::conn::transport::tcp::TcpTransport::builder().with_config(cfg).with_resolver(Loopback).build();
                let t = tcp.with_optional_tls(tls_cfg.map(Arc::new));
                let r = if via == "connector-bare-tcp" {
                    let layer = hyperdriver::client::conn::connector::ConnectorLayer::new(t, HttpConnectionBuilder::<ChunkBody>::default());
                    let mut svc = layer.layer(RequestExecutor::new());
                    tokio::time::timeout(Duration::from_secs(5), async { svc.ready().await.map_err(|e| format!("{e:?}"))?.call(req).await.map_err(|e| format!("{e:?}")) }).await
                } else {
                    let svc = hyperdriver::client::ConnectionPoolService::<_, _, _, ChunkBody>::new(t, HttpConnectionBuilder::<ChunkBody>::default(), RequestExecutor::new(), hyperdriver::client::PoolConfig::default());
                    tokio::time::timeout(Duration::from_secs(5), async { svc.oneshot(req).await.map_err(|e| format!("{e:?}")) }).await
                };
                match r {
                    Err(_) => Err("timeout".into()),
                    Ok(Ok(resp)) => {
                        let st = resp.status();
                        let _ = tokio::time::timeout(Duration::from_secs(5), resp.into_body().collect()).await;
                        Ok(st)
                    }
                    Ok(Err(e)) => Err(e),
                }
            }
            "bare-pool-service" => {
                let t = transport.with_optional_tls(tls_cfg.map(Arc::new));
                let svc = hyperdriver::client::ConnectionPoolService::<_, _, _, ChunkBody>::new(t, HttpConnectionBuilder::<ChunkBody>::default(), RequestExecutor::new(), pool_cfg.clone());
                let mut last = Err("no request sent".to_string());
                let mut first = Some(req);
                for _ in 0..repeat {
                    let req = first.take().unwrap_or_else(&mk_req);
                    last = match tokio::time::timeout(Duration::from_secs(5), svc.clone().oneshot(req)).await {
                        Err(_) => Err("timeout".into()),
                        Ok(Ok(resp)) => {
                            let st = resp.status();
                            let _ = tokio::time::timeout(Duration::from_secs(5), resp.into_body().collect()).await;
                            Ok(st)
                        }
                        Ok(Err(e)) => Err(format!("{e:?}")),
                    };
                    for _ in 0..10 {
                        tokio::task::yield_now().await;
                    }
                }
                last
            }
            _ => {
                let t = transport.with_optional_tls(tls_cfg.map(Arc::new));
                let layer = hyperdriver::client::conn::connector::ConnectorLayer::new(t, HttpConnectionBuilder::<ChunkBody>::default());
                let r = if via == "connector-with-checks" {
                    let inner = SetHostHeaderLayer::new().layer(Http2ChecksLayer::new().layer(Http1ChecksLayer::new().layer(RequestExecutor::new())));
                    let mut svc = layer.layer(inner);
                    tokio::time::timeout(Duration::from_secs(5), async { svc.ready().await.map_err(|e| format!("{e:?}"))?.call(req).await.map_err(|e| format!("{e:?}")) }).await
                } else {
                    let mut svc = layer.layer(RequestExecutor::new());
                    tokio::time::timeout(Duration::from_secs(5), async { svc.ready().await.map_err(|e| format!("{e:?}"))?.call(req).await.map_err(|e| format!("{e:?}")) }).await
                };
                match r {
                    Err(_) => Err("timeout".into()),
                    Ok(Ok(resp)) => {
                        let st = resp.status();
                        let _ = tokio::time::timeout(Duration::from_secs(5), resp.into_body().collect()).await;
                        Ok(st)
                    }
                    Ok(Err(e)) => Err(e),
                }
            }
        };
        out
    };
    let h = tokio::spawn(fut);
    let res = match tokio::time::timeout(Duration::from_secs(3600), h).await {
        Err(_) => "hang".to_string(),
        Ok(Err(e)) => format!("task-panicked: {e}"),
        Ok(Ok(Ok(st))) => format!("ok:{}", st.as_u16()),
        Ok(Ok(Err(e))) => format!("err:{}", e.chars().take(80).collect::<String>()),
    };
    // let library-spawned tasks (connection drivers, pool tasks) run to quiescence
    for _ in 0..3 {
        tokio::time::sleep(Duration::from_millis(2)).await;
    }
    (res, drain_panics())
}

pub fn run(args: &Args) -> Report {
    install_hook();
    let profile = if cfg!(debug_assertions) { "debug" } else { "release" };
    let cases: Vec<Case> = if let Some(path) = &args.replay {
        let v: Value = serde_json::from_str(&std::fs::read_to_string(path).unwrap()).unwrap();
        let want = v["replay"].clone();
        gen_cases(true).into_iter().filter(|c| c.to_json() == want).collect()
    } else {
        gen_cases(args.tier_thorough)
    };
    let cr = &cases;
    let chunk = 64u64;
    let jobs = (cases.len() as u64 + chunk - 1) / chunk;
    // one runtime and one request at a time per worker: a recorded panic belongs to the case that just ran
    // (the hook is process-wide, so workers are separate *processes* in spirit: we serialise hook access by
    // tagging with the thread name and running each worker's cases on its own named thread)
    let mut rep = Report::new("panics");
    let results: Mutex<Vec<(usize, String, Vec<String>)>> = Mutex::new(Vec::new());
    let next = std::sync::atomic::AtomicU64::new(0);
    // panics are attributed through the global hook, therefore cases run strictly one after another
    let _ = (jobs, chunk);
    let rt = tokio::runtime::Builder::new_current_thread().enable_all().start_paused(true).build().unwrap();
    for (i, c) in cr.iter().enumerate() {
        let _ = &next;
        let (res, panics) = rt.block_on(run_case(c));
        results.lock().unwrap().push((i, res, panics));
    }
    drop(rt);
    let p = rep.prop("C17", RULE);
    for (i, res, panics) in results.into_inner().unwrap() {
        let c = &cr[i];
        p.eval(Some(hash_of(c)));
        p.count(&format!("via_{}", c.path), 1);
        p.count(&format!("result_{}", res.split(':').next().unwrap_or("?")), 1);
        p.count(&format!("profile_{profile}"), 1);
        if !c.headers.is_empty() {
            p.count("cases_with_non_ascii_header_values", 1);
        }
        if !c.pool_cfg.is_empty() {
            p.count("cases_with_edge_pool_configuration", 1);
        }
        if res == "hang" {
            p.violation(format!("request-never-resolves:{}:{}", c.path, c.peer), format!("{} | case {}", res, c.to_json()), c.to_json());
        }
        for pn in &panics {
            let loc = pn.split(" :: ").next().unwrap_or("?");
            let loc_short = loc.rsplit("/repo/").next().unwrap_or(loc).to_string();
            let in_lib = loc.contains("/repo/") || loc.starts_with("src/");
            let class = format!("version={} uri={} host={} method={}", match c.version { 9 => "0.9", 10 => "1.0", 11 => "1.1", 2 => "2", _ => "3" }, c.uri_class, c.host_class, if c.method == "CONNECT" { "CONNECT" } else { "other" });
            // signature: location + the input dimension that matters for that location
            let dim = if loc_short.contains("protocol/mod.rs") {
                format!("version={}", if c.version == 9 { "0.9" } else { "3" })
            } else if loc_short.contains("service/http.rs") {
                format!("uri={} method={}", c.uri_class, if c.method == "CONNECT" { "CONNECT" } else { "other" })
            } else {
                class.clone()
            };
            let dim = if c.headers.is_empty() { dim } else { format!("{dim} headers={}", c.headers) };
            p.violation(
                format!("panic@{loc_short}:{dim}:{profile}{}", if in_lib { "" } else { ":outside-hyperdriver" }),
                format!("{pn} | via {} tls={} peer={} | {class} | case {}", c.path, c.tls, c.peer, c.to_json()),
                c.to_json(),
            );
        }
        if res.starts_with("task-panicked") && panics.is_empty() {
            p.violation("panic:unattributed", format!("{res} | case {}", c.to_json()), c.to_json());
        }
        if p.samples.len() < 4 && i % 997 == 0 {
            p.sample(json!({"case": c.to_json(), "result": res, "panics": panics}));
        }
    }
    p.assume("one request at a time per process: a panic recorded by the process-wide hook belongs to the case that just ran");
    p.assume("the http crate itself rejects some strings as URIs (counted as uri-rejected-by-http-crate): those are not well-typed requests");
    let _ = std::panic::take_hook();
    rep
}
