//! C19 through the public `Client` builder: the configured timeout bounds the whole request - every redirect hop, and
//! the time between creating the request future and polling it - in virtual time.

use std::time::Duration;

use http_body_util::BodyExt;
use serde_json::{json, Value};
use tower::{Service, ServiceExt};

use super::*;
use crate::report::{hash_of, Args, Report};

const RULE: &str = "public Client builder (standard redirect policy + with_timeout, pool on/off, HTTP/1.1 and HTTP/2) against a hyperdriver server whose handler sleeps S ms per hop and redirects k times, under the paused clock: optionally through a transport whose poll_ready stays pending for R ms: the request must resolve Ok at R+(k+1)*S if that is before the deadline, with RequestTimeout exactly at the deadline otherwise (deadline counted from the call, also when the future is first polled later); afterwards a fresh request to the origin must be served; non-trivial = every case; distinct by case";

#[derive(Clone, Debug, Hash)]
pub struct Case {
    pub hops: u32,
    pub sleep_ms: u64,
    pub timeout_ms: u64,
    pub delay_before_poll_ms: u64,
    pub pool: bool,
    pub h2: bool,
    /// the transport applies back-pressure: every instance of it reports ready only after this long
    pub transport_ready_ms: u64,
}

impl Case {
    fn to_json(&self) -> Value {
        json!({"engine": "deadline", "hops": self.hops, "sleep_ms": self.sleep_ms, "timeout_ms": self.timeout_ms, "delay_before_poll_ms": self.delay_before_poll_ms, "pool": self.pool, "h2": self.h2, "transport_ready_ms": self.transport_ready_ms})
    }
}

pub fn cases(thorough: bool) -> Vec<Case> {
    let mut v = Vec::new();
    for hops in [0u32, 1, 2, 3] {
        for sleep_ms in [0u64, 40, 600, 6000] {
            for timeout_ms in [0u64, 1000, 10_000] {
                for delay in [0u64, 300, 4000] {
                    for pool in [true, false] {
                        for h2 in [false, true] {
                            if !thorough && delay == 300 && hops > 1 {
                                continue;
                            }
                            v.push(Case { hops, sleep_ms, timeout_ms, delay_before_poll_ms: delay, pool, h2, transport_ready_ms: 0 });
                        }
                    }
                }
            }
        }
    }
    // a transport that is not ready at once (a saturated dial limiter, a slow resolver): the wait is part of the request
    for ready_ms in [200u64, 900, 3000, 20_000] {
        for sleep_ms in [0u64, 40, 600, 6000] {
            for timeout_ms in [1000u64, 10_000] {
                for pool in [true, false] {
                    for h2 in [false, true] {
                        v.push(Case { hops: 0, sleep_ms, timeout_ms, delay_before_poll_ms: 0, pool, h2, transport_ready_ms: ready_ms });
                    }
                }
            }
        }
    }
    v
}

/// A transport whose every instance (the client clones it per connection attempt) becomes ready only `ready_ms` after
/// it was first asked.
pub struct SlowReady {
    inner: Routes,
    ready_ms: u64,
    timer: Option<Pin<Box<tokio::time::Sleep>>>,
}

impl Clone for SlowReady {
    fn clone(&self) -> Self {
        SlowReady { inner: self.inner.clone(), ready_ms: self.ready_ms, timer: None }
    }
}

impl tower::Service<http::request::Parts> for SlowReady {
    type Response = <Routes as tower::Service<http::request::Parts>>::Response;
    type Error = <Routes as tower::Service<http::request::Parts>>::Error;
    type Future = <Routes as tower::Service<http::request::Parts>>::Future;

    fn poll_ready(&mut self, cx: &mut Context<'_>) -> Poll<Result<(), Self::Error>> {
        if self.ready_ms == 0 {
            return self.inner.poll_ready(cx);
        }
        let ms = self.ready_ms;
        let t = self.timer.get_or_insert_with(|| Box::pin(tokio::time::sleep(Duration::from_millis(ms))));
        match t.as_mut().poll(cx) {
            Poll::Pending => Poll::Pending,
            Poll::Ready(()) => self.inner.poll_ready(cx),
        }
    }

    fn call(&mut self, parts: http::request::Parts) -> Self::Future {
        self.timer = None;
        self.inner.call(parts)
    }
}

fn kind(c: &Case) -> &'static str {
    if c.transport_ready_ms > 0 {
        "transport-not-ready-at-once"
    } else if c.hops > 0 {
        "redirected"
    } else if c.delay_before_poll_ms > 0 {
        "polled-late"
    } else {
        "plain"
    }
}

pub async fn run_case(c: &Case) -> Vec<(String, String)> {
    let mut problems = Vec::new();
    let log = Arc::new(Log::default());
    let gates = Gates::default();
    let routes = Routes { log: log.clone(), ..Default::default() };
    let server = spawn_server(ServerSpec { id: 0, proto: Proto::Auto, net: Net::Duplex(16_384), tls: None, graceful: false, sni_validation: false }, log.clone(), gates.clone()).await;
    routes.add("a.test", server.target.clone());
    let b = hyperdriver::Client::builder()
        .with_transport(SlowReady { inner: routes.clone(), ready_ms: c.transport_ready_ms, timer: None })
        .with_protocol(hyperdriver::client::conn::protocol::auto::HttpConnectionBuilder::<ChunkBody>::default())
        .with_standard_redirect_policy()
        .with_timeout(Duration::from_millis(c.timeout_ms))
        .with_body::<ChunkBody, Body>();
    let b = if c.pool { b.with_default_pool() } else { b.without_pool() };
    let mut svc = b.without_tls().build_service();
    let version = if c.h2 { http::Version::HTTP_2 } else { http::Version::HTTP_11 };
    let id = 7000u64;
    let req = Request::builder().method("GET").uri(format!("http://a.test/r/{id}/hop{}", c.hops)).version(version).header("x-id", id).header("x-len", 0u64).header("x-sleep-ms", c.sleep_ms).body(ChunkBody::default()).unwrap();
    let t0 = tokio::time::Instant::now();
    let fut = match svc.ready().await {
        Ok(s) => s.call(req),
        Err(e) => return vec![("client-not-ready".into(), format!("{e:?}"))],
    };
    if c.delay_before_poll_ms > 0 {
        tokio::time::sleep(Duration::from_millis(c.delay_before_poll_ms)).await;
    }
    let res = tokio::time::timeout(Duration::from_secs(3600), async move {
        let resp = fut.await.map_err(|e| format!("{e:?}"))?;
        let st = resp.status().as_u16();
        let _ = resp.into_body().collect().await;
        Ok::<_, String>(st)
    })
    .await;
    let elapsed = t0.elapsed().as_millis() as u64;
    let total = c.delay_before_poll_ms + (c.hops as u64 + 1) * c.sleep_ms + c.transport_ready_ms;
    let deadline = c.timeout_ms;
    match &res {
        Err(_) => problems.push(("request-never-resolves".into(), format!("neither a response nor the timeout error at quiescence (deadline {deadline} ms)"))),
        Ok(Ok(st)) => {
            if total > deadline + 2 {
                problems.push((format!("response-after-the-deadline:{}", kind(c)), format!("status {st} at {elapsed} ms although the request was issued with a {deadline} ms timeout (hops {}, {} ms each, first poll after {} ms)", c.hops, c.sleep_ms, c.delay_before_poll_ms)));
            } else if elapsed > total + 5 {
                problems.push(("response-later-than-the-server-needed".into(), format!("status {st} at {elapsed} ms, the exchange needs {total} ms")));
            }
        }
        Ok(Err(e)) => {
            let is_timeout = e.contains("RequestTimeout");
            if !is_timeout {
                problems.push(("request-failed".into(), format!("{e} at {elapsed} ms")));
            } else if total + 2 < deadline {
                problems.push(("timeout-although-the-response-was-due-before-the-deadline".into(), format!("RequestTimeout at {elapsed} ms, the exchange needs {total} ms, deadline {deadline} ms")));
            } else {
                // the error cannot come before the first poll
                let due = deadline.max(c.delay_before_poll_ms);
                if elapsed > due + 5 {
                    problems.push((format!("timeout-later-than-the-deadline:{}", kind(c)), format!("RequestTimeout at {elapsed} ms, deadline {deadline} ms after the call (first poll after {} ms)", c.delay_before_poll_ms)));
                }
                if elapsed + 2 < deadline {
                    problems.push(("timeout-before-the-deadline".into(), format!("RequestTimeout at {elapsed} ms, deadline {deadline} ms")));
                }
            }
        }
    }
    // the origin is still usable
    let probe = Request::builder().method("GET").uri("http://a.test/r/7001/hop0").version(version).header("x-id", 7001u64).header("x-len", 0u64).body(ChunkBody::default()).unwrap();
    match tokio::time::timeout(Duration::from_secs(3600), svc.oneshot(probe)).await {
        Ok(Ok(resp)) => {
            let _ = resp.into_body().collect().await;
        }
        // a probe that needs a fresh connection cannot beat a deadline shorter than the transport's own delay
        Ok(Err(e)) if c.transport_ready_ms + 5 >= c.timeout_ms && format!("{e:?}").contains("RequestTimeout") => {}
        Ok(Err(e)) => problems.push(("probe-after-timeout-failed".into(), format!("{e:?}"))),
        Err(_) => problems.push(("probe-after-timeout-never-resolves".into(), "a fresh request to the origin hangs".into())),
    }
    server.join.abort();
    problems
}

pub fn run(args: &Args) -> Report {
    let all = cases(true);
    let cs: Vec<Case> = if let Some(path) = &args.replay {
        let v: Value = serde_json::from_str(&std::fs::read_to_string(path).unwrap()).unwrap();
        let want = v["replay"].clone();
        all.into_iter().filter(|c| c.to_json() == want).collect()
    } else {
        cases(args.tier_thorough)
    };
    let cr = &cs;
    let mut rep = crate::report::parallel(args.threads, cs.len() as u64, "deadline", |i, r| {
        let c = &cr[i as usize];
        let rt = tokio::runtime::Builder::new_current_thread().enable_all().start_paused(true).build().unwrap();
        let problems = rt.block_on(run_case(c));
        let p = r.prop("C19", RULE);
        p.eval(Some(hash_of(c)));
        p.count("client_cases", 1);
        let total = c.delay_before_poll_ms + (c.hops as u64 + 1) * c.sleep_ms + c.transport_ready_ms;
        if c.transport_ready_ms > 0 {
            p.count("client_cases_transport_not_ready_at_once", 1);
        }
        p.count(if total > c.timeout_ms { "client_cases_deadline_first" } else { "client_cases_response_first" }, 1);
        if c.hops > 0 {
            p.count("client_cases_redirected", 1);
        }
        for (sig, msg) in problems {
            p.violation(format!("client:{sig}"), format!("{msg} | case {}", c.to_json()), c.to_json());
        }
        if p.samples.len() < 3 && c.hops == 2 && c.sleep_ms == 600 {
            p.sample(json!({"case": c.to_json(), "verdict": "resolved at the earlier of (hops+1)*sleep and the deadline"}));
        }
    });
    if let Some(p) = rep.props.get_mut("C19") {
        p.exhaustive = Some(true);
        p.assume("virtual time: the handler's sleeps and the client's timer run on the same paused clock; completion times are exact up to the 1 ms timer resolution");
    }
    rep
}
