//! The public `Client` type and its builder used the way their documentation allows, in ways the other engines (which
//! drive the boxed service returned by `build_service`) do not:
//!
//! * C03 — `Client` as a `tower::Service` (`poll_ready` then `call`), `Client::request`, clones, a readied client that is
//!   dropped unused; with a user layer (added through `Builder::layer`) whose readiness is a reservation of a single slot,
//!   as a concurrency limit does. Every request has to resolve.
//! * C05 — the pool configuration handed to `Client::builder().with_pool(..)` is the one in force: an idle connection
//!   older than a (sub-second or whole-second) `idle_timeout` is not handed out again.

use std::time::Duration;

use http_body_util::BodyExt;
use serde_json::{json, Value};
use tower::{Service, ServiceExt};

use super::*;
use crate::report::{hash_of, Args, Report};

const RULE03: &str = "public Client (built with Builder::layer(user layer whose poll_ready reserves the only slot and whose response future gives it back), default pool) against a hyperdriver server under the paused clock: usage scripts over {ready+call, request(), get-like oneshot, clone, readied-then-dropped}; every request resolves Ok before the virtual 1 h watchdog; non-trivial = every script; distinct by script";
const RULE05: &str = "public Client built with with_pool(idle_timeout = T): request, real sleep G > T + margin, request: the second request must travel on a fresh connection (transport dial log + server-side connection ids); T in {150 ms, 400 ms, 1 s}; one-sided (a longer sleep only makes the connection older)";

/// readiness = reservation of a slot; the slot travels with the call and comes back with the response
pub struct Reserve<S> {
    inner: S,
    slots: Arc<Slots>,
    reservation: Reservation,
}

impl<S: Clone> Clone for Reserve<S> {
    fn clone(&self) -> Self {
        Reserve { inner: self.inner.clone(), slots: self.slots.clone(), reservation: Reservation::default() }
    }
}

#[derive(Clone)]
pub struct ReserveLayer(pub Arc<Slots>);

impl<S> tower::Layer<S> for ReserveLayer {
    type Service = Reserve<S>;
    fn layer(&self, inner: S) -> Self::Service {
        Reserve { inner, slots: self.0.clone(), reservation: Reservation::default() }
    }
}

impl<S, R> Service<R> for Reserve<S>
where
    S: Service<R>,
    S::Future: Send + 'static,
{
    type Response = S::Response;
    type Error = S::Error;
    type Future = Pin<Box<dyn Future<Output = Result<S::Response, S::Error>> + Send>>;

    fn poll_ready(&mut self, cx: &mut Context<'_>) -> Poll<Result<(), Self::Error>> {
        if !self.reservation.try_reserve(&self.slots, cx) {
            return Poll::Pending;
        }
        self.inner.poll_ready(cx)
    }

    fn call(&mut self, req: R) -> Self::Future {
        let reservation = std::mem::take(&mut self.reservation);
        let fut = self.inner.call(req);
        Box::pin(async move {
            let _reservation = reservation;
            fut.await
        })
    }
}

pub const SCRIPTS: [&str; 8] = [
    "ready-call x3",
    "request x3",
    "oneshot-on-clone x3",
    "ready-call, request, ready-call",
    "clone: ready-call on both, one after the other",
    "readied client dropped, then request on a clone",
    "ready twice, call once, then request",
    "two clones: ready both (second waits), call first, call second",
];

fn request(id: u64) -> Request<hyperdriver::Body> {
    Request::builder().method("GET").uri(format!("http://a.test/r/{id}/x")).header("x-id", id).header("x-len", 0u64).body(hyperdriver::Body::empty()).unwrap()
}

async fn finish(label: &str, r: Result<http::Response<hyperdriver::Body>, hyperdriver::client::Error>) -> Result<(), String> {
    match r {
        Ok(resp) => {
            let _ = resp.into_body().collect().await;
            Ok(())
        }
        Err(e) => Err(format!("{label}: {e:?}")),
    }
}

pub async fn run_script(script: &'static str, pool: bool) -> (Vec<(String, String)>, usize) {
    let log = Arc::new(Log::default());
    let gates = Gates::default();
    let routes = Routes { log: log.clone(), ..Default::default() };
    let server = spawn_server(ServerSpec { id: 0, proto: Proto::Auto, net: Net::Duplex(16_384), tls: None, graceful: false, sni_validation: false }, log.clone(), gates.clone()).await;
    routes.add("a.test", server.target.clone());
    let slots = Slots::new(1);
    let b = hyperdriver::Client::builder()
        .with_transport(routes.clone())
        .with_protocol(hyperdriver::client::conn::protocol::auto::HttpConnectionBuilder::<hyperdriver::Body>::default())
        .without_redirects()
        .layer(ReserveLayer(slots.clone()));
    let b = if pool { b.with_default_pool() } else { b.without_pool() };
    let mut client: hyperdriver::Client = b.without_tls().build();
    let body = async {
        match script {
            "ready-call x3" => {
                for k in 0..3u64 {
                    let f = client.ready().await.map_err(|e| format!("ready: {e:?}"))?.call(request(100 + k));
                    finish("call", f.await).await?;
                }
            }
            "request x3" => {
                for k in 0..3u64 {
                    finish("request", client.request(request(100 + k)).await).await?;
                }
            }
            "oneshot-on-clone x3" => {
                for k in 0..3u64 {
                    finish("oneshot", client.clone().oneshot(request(100 + k)).await).await?;
                }
            }
            "ready-call, request, ready-call" => {
                let f = client.ready().await.map_err(|e| format!("ready: {e:?}"))?.call(request(100));
                finish("call", f.await).await?;
                finish("request", client.request(request(101)).await).await?;
                let f = client.ready().await.map_err(|e| format!("ready: {e:?}"))?.call(request(102));
                finish("call", f.await).await?;
            }
            "clone: ready-call on both, one after the other" => {
                let mut c2 = client.clone();
                let f = client.ready().await.map_err(|e| format!("ready: {e:?}"))?.call(request(100));
                finish("call", f.await).await?;
                let f = c2.ready().await.map_err(|e| format!("ready: {e:?}"))?.call(request(101));
                finish("call on clone", f.await).await?;
                let f = client.ready().await.map_err(|e| format!("ready: {e:?}"))?.call(request(102));
                finish("call", f.await).await?;
            }
            "readied client dropped, then request on a clone" => {
                let mut c2 = client.clone();
                client.ready().await.map_err(|e| format!("ready: {e:?}"))?;
                drop(client);
                finish("request on clone", c2.request(request(100)).await).await?;
                finish("request on clone", c2.request(request(101)).await).await?;
            }
            "ready twice, call once, then request" => {
                client.ready().await.map_err(|e| format!("ready: {e:?}"))?;
                let f = client.ready().await.map_err(|e| format!("ready: {e:?}"))?.call(request(100));
                finish("call", f.await).await?;
                finish("request", client.request(request(101)).await).await?;
            }
            _ => {
                // the second clone can only become ready once the first one's response has given the slot back
                let mut c2 = client.clone();
                let f1 = client.ready().await.map_err(|e| format!("ready: {e:?}"))?.call(request(100));
                let second = async {
                    let f2 = c2.ready().await.map_err(|e| format!("ready: {e:?}"))?.call(request(101));
                    finish("call on clone", f2.await).await
                };
                let (a, b) = tokio::join!(async { finish("call", f1.await).await }, second);
                a?;
                b?;
            }
        }
        Ok::<(), String>(())
    };
    let mut problems = Vec::new();
    match tokio::time::timeout(Duration::from_secs(3600), body).await {
        Err(_) => problems.push((format!("client-api:request-never-resolves:{script}"), "a request through the public Client neither completed nor failed: nothing can make progress any more (virtual 1 h watchdog)".to_string())),
        Ok(Err(e)) => problems.push((format!("client-api:request-failed:{script}"), e)),
        Ok(Ok(())) => {}
    }
    server.join.abort();
    let served = log.handled.lock().unwrap().len();
    (problems, served)
}

/// C05 through the builder: (idle_timeout_ms, gap_ms)
pub const EXPIRY_CASES: [(u64, u64); 4] = [(150, 700), (400, 1200), (999, 1900), (1000, 1900)];

pub async fn run_expiry(idle_timeout_ms: u64, gap_ms: u64, tls_first: bool) -> Vec<(String, String)> {
    let log = Arc::new(Log::default());
    let gates = Gates::default();
    let routes = Routes { log: log.clone(), ..Default::default() };
    let server = spawn_server(ServerSpec { id: 0, proto: Proto::H1, net: Net::Duplex(16_384), tls: None, graceful: false, sni_validation: false }, log.clone(), gates.clone()).await;
    routes.add("a.test", server.target.clone());
    let mut p = hyperdriver::client::PoolConfig::default();
    p.idle_timeout = Some(Duration::from_millis(idle_timeout_ms));
    BUILDER_TLS_BEFORE_BODY.with(|c| c.set(tls_first));
    let client = build_client(routes.clone(), Some(p), None, None);
    BUILDER_TLS_BEFORE_BODY.with(|c| c.set(false));
    let mut problems = Vec::new();
    let mut conns = Vec::new();
    for k in 0..2u64 {
        let id = 300 + k;
        let req = Request::builder().method("GET").uri(format!("http://a.test/r/{id}/x")).header("x-id", id).header("x-len", 0u64).body(ChunkBody::default()).unwrap();
        match tokio::time::timeout(Duration::from_secs(30), client.clone().oneshot(req)).await {
            Ok(Ok(resp)) => {
                let _ = resp.into_body().collect().await;
            }
            other => {
                problems.push(("client-api:expiry-request-failed".to_string(), format!("request {k}: {:?}", other.map(|r| r.map(|_| ()).map_err(|e| format!("{e:?}"))))));
                break;
            }
        }
        conns.push(log.handled.lock().unwrap().iter().find(|h| h.header_id == Some(id)).map(|h| h.conn));
        if k == 0 {
            tokio::time::sleep(Duration::from_millis(gap_ms)).await;
        }
    }
    let dials = log.dials.lock().unwrap().len();
    if conns.len() == 2 && conns[0].is_some() && conns[0] == conns[1] {
        problems.push((
            "client-api:expired-connection-handed-out".to_string(),
            format!("Client::builder().with_pool(idle_timeout = {idle_timeout_ms} ms): the second request, {gap_ms} ms after the first, travelled on the same connection ({} dial(s))", dials),
        ));
    }
    server.join.abort();
    problems
}

const RULE04: &str = "public Client builder with_pool(max_idle_per_host in {0, 1, 32}) / ConnectionPoolService directly: k HTTP/2 requests issued while the first dial is held at a gate (every one of them has been polled before the gate opens), then the gate opens: exactly one dial, every request answered; then one more request: no further dial when the pool may keep the connection (max_idle_per_host > 0)";

/// C04 through the builder: a burst of HTTP/2 requests while the first connection attempt is certainly in flight
pub async fn run_burst(max_idle: usize, k: usize, tls_first: bool) -> Vec<(String, String)> {
    let log = Arc::new(Log::default());
    let gates = Gates::default();
    let routes = Routes { log: log.clone(), dial_gate: Some((gates.clone(), "dial".to_string())), ..Default::default() };
    let server = spawn_server(ServerSpec { id: 0, proto: Proto::H2, net: Net::Duplex(16_384), tls: None, graceful: false, sni_validation: false }, log.clone(), gates.clone()).await;
    routes.add("a.test", server.target.clone());
    let mut p = hyperdriver::client::PoolConfig::default();
    p.max_idle_per_host = max_idle;
    BUILDER_TLS_BEFORE_BODY.with(|c| c.set(tls_first));
    let client = build_client(routes.clone(), Some(p), None, None);
    BUILDER_TLS_BEFORE_BODY.with(|c| c.set(false));
    let mut problems = Vec::new();
    let req = |id: u64| Request::builder().method("GET").uri(format!("http://a.test/r/{id}/x")).version(http::Version::HTTP_2).header("x-id", id).header("x-len", 0u64).body(ChunkBody::default()).unwrap();
    let mut handles = Vec::new();
    for j in 0..k {
        let c = client.clone();
        let r = req(400 + j as u64);
        handles.push(tokio::spawn(async move {
            let resp = c.oneshot(r).await.map_err(|e| format!("{e:?}"))?;
            let _ = resp.into_body().collect().await;
            Ok::<(), String>(())
        }));
    }
    // every request has been polled (and is waiting) before the first dial is allowed to complete
    for _ in 0..3 {
        tokio::time::sleep(Duration::from_millis(5)).await;
    }
    gates.open("dial");
    for (j, h) in handles.into_iter().enumerate() {
        match tokio::time::timeout(Duration::from_secs(3600), h).await {
            Ok(Ok(Ok(()))) => {}
            other => problems.push(("client-api:burst-request-failed".to_string(), format!("request {j}: {:?}", other.map(|r| r.map_err(|e| e.to_string()))))),
        }
    }
    let dials = log.dials.lock().unwrap().len();
    if dials != 1 {
        problems.push(("client-api:h2-burst-dialed-more-than-once".to_string(), format!("with_pool(max_idle_per_host = {max_idle}): {k} HTTP/2 requests issued while the first connection attempt was in flight caused {dials} dials")));
    }
    if max_idle > 0 {
        for _ in 0..3 {
            tokio::time::sleep(Duration::from_millis(5)).await;
        }
        let _ = tokio::time::timeout(Duration::from_secs(3600), async {
            if let Ok(resp) = client.clone().oneshot(req(499)).await {
                let _ = resp.into_body().collect().await;
            }
        })
        .await;
        let dials2 = log.dials.lock().unwrap().len();
        if dials2 != dials {
            problems.push(("client-api:h2-dialed-again-although-a-connection-is-pooled".to_string(), format!("with_pool(max_idle_per_host = {max_idle}): a request after the burst caused {} more dial(s)", dials2 - dials)));
        }
    }
    server.join.abort();
    problems
}

pub fn run(args: &Args) -> Report {
    let mut rep = Report::new("clientapi");
    let replay: Option<Value> = args.replay.as_ref().map(|p| serde_json::from_str::<Value>(&std::fs::read_to_string(p).unwrap()).unwrap()["replay"].clone());
    if args.wants("C03") {
        let mut cases: Vec<(&'static str, bool)> = Vec::new();
        for s in SCRIPTS {
            for pool in [true, false] {
                cases.push((s, pool));
            }
        }
        if let Some(r) = &replay {
            cases.retain(|(s, p)| r["script"] == *s && r["pool"] == *p);
        }
        let cr = &cases;
        let part = crate::report::parallel(args.threads, cases.len() as u64, "clientapi", |i, r| {
            let (script, pool) = cr[i as usize];
            let rt = tokio::runtime::Builder::new_current_thread().enable_all().start_paused(true).build().unwrap();
            let (problems, served) = rt.block_on(run_script(script, pool));
            let p = r.prop("C03", RULE03);
            p.count("client_api_requests_served", served as u64);
            let replay = json!({"engine": "clientapi", "script": script, "pool": pool});
            p.eval(Some(hash_of(&format!("{replay}"))));
            p.count("client_api_scripts", 1);
            for (sig, msg) in problems {
                p.violation(sig, format!("{msg} | {replay}"), replay.clone());
            }
            if p.samples.len() < 3 {
                p.sample(json!({"script": script, "pool": pool, "verdict": "every request resolved Ok"}));
            }
        });
        rep.merge(part);
    }
    if args.wants("C04") {
        let mut cases: Vec<(usize, usize, bool)> = Vec::new();
        for max_idle in [0usize, 1, 32] {
            for k in [2usize, 5, 24] {
                for tls_first in [false, true] {
                    cases.push((max_idle, k, tls_first));
                }
            }
        }
        if let Some(r) = &replay {
            cases.retain(|(m, k, f)| r["max_idle"] == *m && r["burst"] == *k && r["tls_first"] == *f);
        }
        let cr = &cases;
        let part = crate::report::parallel(args.threads, cases.len() as u64, "clientapi", |i, r| {
            let (m, k, f) = cr[i as usize];
            let rt = tokio::runtime::Builder::new_current_thread().enable_all().start_paused(true).build().unwrap();
            let problems = rt.block_on(run_burst(m, k, f));
            let p = r.prop("C04", RULE04);
            let replay = json!({"engine": "clientapi", "max_idle": m, "burst": k, "tls_first": f});
            p.eval(Some(hash_of(&format!("{replay}"))));
            p.count("client_api_h2_bursts", 1);
            for (sig, msg) in problems {
                p.violation(sig, format!("{msg} | {replay}"), replay.clone());
            }
            if p.samples.len() < 3 {
                p.sample(json!({"max_idle_per_host": m, "burst": k, "verdict": "one dial, every request answered"}));
            }
        });
        rep.merge(part);
    }
    if args.wants("C05") {
        let mut cases: Vec<(u64, u64, bool)> = Vec::new();
        for (t, g) in EXPIRY_CASES {
            for tls_first in [false, true] {
                cases.push((t, g, tls_first));
            }
        }
        if let Some(r) = &replay {
            cases.retain(|(t, g, f)| r["idle_timeout_ms"] == *t && r["gap_ms"] == *g && r["tls_first"] == *f);
        }
        let cr = &cases;
        let part = crate::report::parallel(args.threads, cases.len() as u64, "clientapi", |i, r| {
            let (t, g, f) = cr[i as usize];
            let rt = tokio::runtime::Builder::new_current_thread().enable_all().build().unwrap();
            let problems = rt.block_on(run_expiry(t, g, f));
            let p = r.prop("C05", RULE05);
            let replay = json!({"engine": "clientapi", "idle_timeout_ms": t, "gap_ms": g, "tls_first": f});
            p.eval(Some(hash_of(&format!("{replay}"))));
            p.count("client_api_expiry_cases", 1);
            for (sig, msg) in problems {
                p.violation(sig, format!("{msg} | {replay}"), replay.clone());
            }
            if p.samples.len() < 3 {
                p.sample(json!({"idle_timeout_ms": t, "gap_ms": g, "verdict": "second request travelled on a fresh connection"}));
            }
        });
        rep.merge(part);
    }
    rep
}
