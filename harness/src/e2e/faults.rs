//! C09 — one misbehaving connection never takes the server down.
//!
//! A hyperdriver server (auto / http1 / http2; duplex, TCP, Unix; with and without TLS) receives a sequence
//! of per-connection faults interleaved with well-behaved requests. After every fault the serving future
//! must still be pending, a fresh well-behaved probe must be served correctly, and a request that was in
//! flight on another connection during the fault must complete intact.

use std::future::Future;
use std::pin::Pin;
use std::sync::Arc;
use std::task::{Context, Poll};
use std::time::Duration;

use http_body_util::BodyExt;
use rand::rngs::StdRng;
use rand::seq::SliceRandom;
use rand::{Rng, SeedableRng};
use serde_json::{json, Value};
use tokio::io::{AsyncRead, AsyncReadExt, AsyncWrite, AsyncWriteExt};
use tower::ServiceExt;

use super::*;
use crate::report::{hash_of, Args, Report};

const RULE: &str = "fault worlds: one hyperdriver server (auto/http1/http2 x duplex/TCP/Unix x plain/TLS) receives 1-4 per-connection faults (connect polled once then dropped, connect then drop, RST, garbage, truncated preface/head/body, abort mid-response, HTTP/2 protocol violations, handler error, TLS: partial ClientHello then close, plaintext to a TLS port, stalled handshake, unknown ALPN, untrusting client; Unix peer bound to a non-UTF-8 path), each followed by the check that the serving future is still pending and that a fresh well-behaved probe is served intact, with a gated healthy request in flight across the fault; every fault kind x acceptor x protocol is enumerated singly, sequences are sampled; non-trivial = every world; distinct by (server config, fault sequence)";

#[derive(Clone, Copy, Debug, PartialEq, Eq, Hash)]
pub enum Fault {
    ConnectPolledOnceThenDropped,
    ConnectThenDrop,
    Reset,
    Garbage,
    TruncatedPreface,
    TruncatedHead,
    TruncatedBody,
    AbortMidResponse,
    H2BadFrame,
    H2OversizedSettings,
    HandlerError,
    TlsPartialHello,
    TlsPlaintext,
    TlsStall,
    TlsUnknownAlpn,
    TlsUntrustingClient,
    UnixNonUtf8Peer,
    /// a duplex client that asks for a zero-capacity pipe (it can never send a byte); when it is the first fault of
    /// a world it is injected before the baseline probe, i.e. it is the first client the listener ever sees
    DuplexZeroBuffer,
}

pub const ALL_FAULTS: [Fault; 18] = [
    Fault::ConnectPolledOnceThenDropped,
    Fault::ConnectThenDrop,
    Fault::Reset,
    Fault::Garbage,
    Fault::TruncatedPreface,
    Fault::TruncatedHead,
    Fault::TruncatedBody,
    Fault::AbortMidResponse,
    Fault::H2BadFrame,
    Fault::H2OversizedSettings,
    Fault::HandlerError,
    Fault::TlsPartialHello,
    Fault::TlsPlaintext,
    Fault::TlsStall,
    Fault::TlsUnknownAlpn,
    Fault::TlsUntrustingClient,
    Fault::UnixNonUtf8Peer,
    Fault::DuplexZeroBuffer,
];

#[derive(Clone, Debug)]
pub struct FaultWorld {
    pub proto: Proto,
    pub net: Net,
    pub tls: bool,
    pub faults: Vec<Fault>,
}

impl FaultWorld {
    fn to_json(&self) -> Value {
        json!({"engine": "faults", "proto": format!("{:?}", self.proto), "net": format!("{:?}", self.net), "tls": self.tls, "faults": self.faults.iter().map(|f| format!("{f:?}")).collect::<Vec<_>>()})
    }
    fn from_json(v: &Value) -> FaultWorld {
        let proto = match v["proto"].as_str().unwrap() {
            "Auto" => Proto::Auto,
            "H1" => Proto::H1,
            _ => Proto::H2,
        };
        let net = match v["net"].as_str().unwrap() {
            "Tcp" => Net::Tcp,
            "Unix" => Net::Unix,
            s => Net::Duplex(s.trim_start_matches("Duplex(").trim_end_matches(')').parse().unwrap_or(4096)),
        };
        let faults = v["faults"].as_array().unwrap().iter().filter_map(|f| ALL_FAULTS.iter().copied().find(|x| format!("{x:?}") == f.as_str().unwrap())).collect();
        FaultWorld { proto, net, tls: v["tls"].as_bool().unwrap(), faults }
    }
}

pub fn applicable(f: Fault, w: &FaultWorld) -> bool {
    match f {
        Fault::ConnectPolledOnceThenDropped | Fault::DuplexZeroBuffer => matches!(w.net, Net::Duplex(_)),
        Fault::Reset => w.net == Net::Tcp,
        Fault::UnixNonUtf8Peer => w.net == Net::Unix,
        Fault::TlsPartialHello | Fault::TlsPlaintext | Fault::TlsStall | Fault::TlsUnknownAlpn | Fault::TlsUntrustingClient => w.tls,
        Fault::TruncatedPreface | Fault::H2BadFrame | Fault::H2OversizedSettings => w.proto != Proto::H1,
        Fault::TruncatedHead | Fault::TruncatedBody | Fault::AbortMidResponse => w.proto != Proto::H2,
        _ => true,
    }
}

pub trait RawIoT: AsyncRead + AsyncWrite + Unpin + Send {}
impl<T: AsyncRead + AsyncWrite + Unpin + Send> RawIoT for T {}
pub type RawIo = Box<dyn RawIoT>;

pub async fn raw_connect(t: &Target) -> std::io::Result<RawIo> {
    Ok(match t {
        Target::Duplex(c, buf) => Box::new(c.connect(*buf).await?),
        Target::Tcp(a) => Box::new(tokio::net::TcpStream::connect(a).await?),
        Target::Unix(p) => Box::new(tokio::net::UnixStream::connect(p).await?),
    })
}

async fn tls_wrap(io: RawIo, host: &str, cfg: rustls::ClientConfig) -> std::io::Result<RawIo> {
    let name = rustls::pki_types::ServerName::try_from(host.to_string()).map_err(|e| std::io::Error::new(std::io::ErrorKind::InvalidInput, e))?;
    let s = tokio_rustls::TlsConnector::from(Arc::new(cfg)).connect(name, io).await?;
    Ok(Box::new(s))
}

struct PollOnce<F>(Option<Pin<Box<F>>>);
impl<F: Future> Future for PollOnce<F> {
    type Output = ();
    fn poll(mut self: Pin<&mut Self>, cx: &mut Context<'_>) -> Poll<()> {
        if let Some(mut f) = self.0.take() {
            let _ = f.as_mut().poll(cx);
        }
        Poll::Ready(())
    }
}

async fn settle(paused: bool) {
    if paused {
        for _ in 0..3 {
            tokio::time::sleep(Duration::from_millis(5)).await;
        }
    } else {
        tokio::time::sleep(Duration::from_millis(40)).await;
    }
}

async fn inject(f: Fault, w: &FaultWorld, target: &Target, stalled: &mut Vec<RawIo>, paused: bool) -> Result<(), String> {
    let alpn: &[&str] = match w.proto {
        Proto::H2 => &["h2"],
        Proto::H1 => &["http/1.1"],
        Proto::Auto => &["h2", "http/1.1"],
    };
    // faults below the TLS layer are sent raw; protocol-level faults go through TLS when the server has it
    let proto_io = |io: RawIo| async move {
        if w.tls {
            tls_wrap(io, "a.test", client_tls(alpn)).await.map_err(|e| format!("fault tls setup: {e}"))
        } else {
            Ok(io)
        }
    };
    match f {
        Fault::ConnectPolledOnceThenDropped => {
            if let Target::Duplex(c, buf) = target {
                let c = c.clone();
                let buf = *buf;
                PollOnce(Some(Box::pin(async move { c.connect(buf).await }))).await;
            }
        }
        Fault::ConnectThenDrop => {
            let io = raw_connect(target).await.map_err(|e| format!("fault connect: {e}"))?;
            drop(io);
        }
        Fault::DuplexZeroBuffer => {
            if let Target::Duplex(c, _) = target {
                let mut io = c.connect(0).await.map_err(|e| format!("fault connect: {e}"))?;
                let _ = tokio::time::timeout(Duration::from_millis(50), io.write_all(b"GET / HTTP/1.1\r\n")).await;
                drop(io);
            }
        }
        Fault::Reset => {
            if let Target::Tcp(a) = target {
                // blocking connects on the runtime's own thread, no await in between: the server task cannot run
                // before the connections have been reset, so they are reset while still in the listen backlog
                // (a burst of four; one of them after an ordinary async connect for the "accepted first" order)
                for k in 0..4 {
                    let std = if k == 3 {
                        let s = tokio::net::TcpStream::connect(a).await.map_err(|e| format!("fault connect: {e}"))?;
                        s.into_std().map_err(|e| e.to_string())?
                    } else {
                        std::net::TcpStream::connect(a).map_err(|e| format!("fault connect: {e}"))?
                    };
                    let sock = socket2::Socket::from(std);
                    let _ = sock.set_linger(Some(Duration::from_secs(0)));
                    let mut s2 = &sock;
                    use std::io::Write;
                    let _ = s2.write(b"GET /r/1/x HTTP/1.1\r\nhost: a");
                    drop(sock);
                }
            }
        }
        Fault::Garbage => {
            let mut io = proto_io(raw_connect(target).await.map_err(|e| format!("fault connect: {e}"))?).await?;
            let _ = io.write_all(&[0x00, 0xff, 0x13, 0x37, b'\r', b'\n', 0x80, 0x81, b' ', b'\n', b'\n']).await;
            let _ = io.write_all(&vec![0xa5u8; 300]).await;
            let _ = io.shutdown().await;
        }
        Fault::TruncatedPreface => {
            let mut io = proto_io(raw_connect(target).await.map_err(|e| format!("fault connect: {e}"))?).await?;
            let _ = io.write_all(&b"PRI * HTTP/2.0\r\n\r\nSM\r\n\r\n"[..11]).await;
            let _ = io.shutdown().await;
        }
        Fault::TruncatedHead => {
            let mut io = proto_io(raw_connect(target).await.map_err(|e| format!("fault connect: {e}"))?).await?;
            let _ = io.write_all(b"POST /r/5/x HTTP/1.1\r\nhost: a.test\r\nx-id: 5\r\ncontent-le").await;
            let _ = io.shutdown().await;
        }
        Fault::TruncatedBody => {
            let mut io = proto_io(raw_connect(target).await.map_err(|e| format!("fault connect: {e}"))?).await?;
            let _ = io.write_all(b"POST /r/6/x HTTP/1.1\r\nhost: a.test\r\nx-id: 6\r\ncontent-length: 100\r\n\r\n0123456789").await;
            settle(paused).await;
            let _ = io.shutdown().await;
        }
        Fault::AbortMidResponse => {
            let mut io = proto_io(raw_connect(target).await.map_err(|e| format!("fault connect: {e}"))?).await?;
            // id 5 -> 30 000 byte response, sent in 64 byte chunks
            let _ = io.write_all(b"GET /r/5/x HTTP/1.1\r\nhost: a.test\r\nx-id: 5\r\nx-resp-chunk: 64\r\n\r\n").await;
            let mut buf = [0u8; 50];
            let _ = tokio::time::timeout(Duration::from_secs(5), io.read(&mut buf)).await;
            drop(io);
        }
        Fault::H2BadFrame => {
            let mut io = proto_io(raw_connect(target).await.map_err(|e| format!("fault connect: {e}"))?).await?;
            let _ = io.write_all(b"PRI * HTTP/2.0\r\n\r\nSM\r\n\r\n").await;
            // a HEADERS frame on stream 0 with a bogus length and flags
            let _ = io.write_all(&[0x00, 0x00, 0x05, 0x01, 0xff, 0x00, 0x00, 0x00, 0x00, 1, 2, 3, 4, 5]).await;
            settle(paused).await;
            let _ = io.shutdown().await;
        }
        Fault::H2OversizedSettings => {
            let mut io = proto_io(raw_connect(target).await.map_err(|e| format!("fault connect: {e}"))?).await?;
            let _ = io.write_all(b"PRI * HTTP/2.0\r\n\r\nSM\r\n\r\n").await;
            // SETTINGS frame claiming 0xffffff bytes of payload
            let _ = io.write_all(&[0xff, 0xff, 0xff, 0x04, 0x00, 0x00, 0x00, 0x00, 0x00]).await;
            let _ = io.write_all(&vec![0u8; 2000]).await;
            settle(paused).await;
            drop(io);
        }
        Fault::HandlerError => {
            let mut io = proto_io(raw_connect(target).await.map_err(|e| format!("fault connect: {e}"))?).await?;
            if w.proto == Proto::H2 {
                let (mut send, conn) = hyper::client::conn::http2::Builder::new(hyperdriver::bridge::rt::TokioExecutor::new())
                    .handshake::<_, ChunkBody>(hyperdriver::bridge::io::TokioIo::new(io))
                    .await
                    .map_err(|e| format!("fault h2 handshake: {e}"))?;
                let d = tokio::spawn(conn);
                let req = http::Request::builder().uri("http://a.test/r/7/x").header("x-id", 7u64).header("x-fault", "handler-err").body(ChunkBody::default()).unwrap();
                let _ = tokio::time::timeout(Duration::from_secs(10), send.send_request(req)).await;
                drop(send);
                d.abort();
            } else {
                let _ = io.write_all(b"GET /r/7/x HTTP/1.1\r\nhost: a.test\r\nx-id: 7\r\nx-fault: handler-err\r\n\r\n").await;
                let mut buf = [0u8; 200];
                let _ = tokio::time::timeout(Duration::from_secs(5), io.read(&mut buf)).await;
            }
        }
        Fault::TlsPartialHello => {
            let mut io = raw_connect(target).await.map_err(|e| format!("fault connect: {e}"))?;
            // TLS record header announcing a 512 byte ClientHello, 20 bytes of it, then close
            let _ = io.write_all(&[0x16, 0x03, 0x01, 0x02, 0x00, 0x01, 0x00, 0x01, 0xfc, 0x03, 0x03]).await;
            let _ = io.write_all(&[0x42u8; 20]).await;
            let _ = io.shutdown().await;
        }
        Fault::TlsPlaintext => {
            let mut io = raw_connect(target).await.map_err(|e| format!("fault connect: {e}"))?;
            let _ = io.write_all(b"GET /r/8/x HTTP/1.1\r\nhost: a.test\r\nx-id: 8\r\n\r\n").await;
            let mut buf = [0u8; 100];
            let _ = tokio::time::timeout(Duration::from_secs(5), io.read(&mut buf)).await;
        }
        Fault::TlsStall => {
            let mut io = raw_connect(target).await.map_err(|e| format!("fault connect: {e}"))?;
            let _ = io.write_all(&[0x16, 0x03, 0x01, 0x02, 0x00, 0x01]).await;
            // keep the half-finished handshake open for the rest of the world
            stalled.push(io);
        }
        Fault::TlsUnknownAlpn => {
            let io = raw_connect(target).await.map_err(|e| format!("fault connect: {e}"))?;
            let _ = tokio::time::timeout(Duration::from_secs(5), tls_wrap(io, "a.test", client_tls(&["spdy/9"]))).await;
        }
        Fault::TlsUntrustingClient => {
            let io = raw_connect(target).await.map_err(|e| format!("fault connect: {e}"))?;
            install_crypto();
            let cfg = rustls::ClientConfig::builder().with_root_certificates(rustls::RootCertStore::empty()).with_no_client_auth();
            let _ = tokio::time::timeout(Duration::from_secs(5), tls_wrap(io, "a.test", cfg)).await;
        }
        Fault::UnixNonUtf8Peer => {
            if let Target::Unix(p) = target {
                use std::os::unix::ffi::OsStrExt;
                let dir = std::env::temp_dir();
                let mut name = dir.as_os_str().as_bytes().to_vec();
                name.extend_from_slice(format!("/hdv-peer-{}-", std::process::id()).as_bytes());
                name.extend_from_slice(&[0xff, 0xfe, b'.', b's']);
                let path = std::path::PathBuf::from(std::ffi::OsStr::from_bytes(&name));
                let _ = std::fs::remove_file(&path);
                let sock = socket2::Socket::new(socket2::Domain::UNIX, socket2::Type::STREAM, None).map_err(|e| e.to_string())?;
                sock.bind(&socket2::SockAddr::unix(&path).map_err(|e| e.to_string())?).map_err(|e| format!("bind non-utf8 path: {e}"))?;
                let r = sock.connect(&socket2::SockAddr::unix(p).map_err(|e| e.to_string())?);
                let _ = std::fs::remove_file(&path);
                r.map_err(|e| format!("fault connect: {e}"))?;
                use std::io::Write;
                let mut s = &sock;
                let _ = s.write(b"GET /r/9/x HTTP/1.1\r\nhost: a.test\r\nx-id: 9\r\n\r\n");
                settle(paused).await;
                drop(sock);
            }
        }
    }
    Ok(())
}

fn probe_spec(id: u64, w: &FaultWorld, gate: Option<String>) -> ReqSpec {
    let mut headers = vec![];
    if let Some(g) = gate {
        headers.push(("x-gate-before-response".to_string(), g));
    }
    ReqSpec {
        id,
        origin: format!("{}://a.test", if w.tls { "https" } else { "http" }),
        method: http::Method::POST,
        extra_path: "probe".into(),
        query: Some("p=1".into()),
        h2: w.proto == Proto::H2,
        body_len: 700,
        chunk: 128,
        pending_every: 0,
        headers,
        resp_chunk: 0,
        unsized_body: id % 2 == 1,
        http10: false,
        root_path: 0,
    }
}

async fn do_probe(client: ClientSvc, spec: ReqSpec) -> Result<(), (String, String)> {
    let resp = match tokio::time::timeout(Duration::from_secs(20), client.oneshot(spec.build())).await {
        Err(_) => return Err(("probe-timeout".into(), format!("probe {} got no response", spec.id))),
        Ok(Err(e)) => return Err(("probe-not-served".into(), format!("probe {} failed: {e:?}", spec.id))),
        Ok(Ok(r)) => r,
    };
    let (parts, body) = resp.into_parts();
    let data = match tokio::time::timeout(Duration::from_secs(20), body.collect()).await {
        Ok(Ok(d)) => d.to_bytes(),
        Ok(Err(e)) => return Err(("probe-body-failed".into(), format!("probe {}: {e:?}", spec.id))),
        Err(_) => return Err(("probe-timeout".into(), format!("probe {} body never completed", spec.id))),
    };
    let ps = check_response(&spec, Some(0), parts.status, &parts.headers, &data);
    if let Some((s, m)) = ps.into_iter().next() {
        return Err((format!("probe:{s}"), m));
    }
    Ok(())
}

pub async fn run_world(w: &FaultWorld, paused: bool) -> (Vec<(String, String)>, Vec<String>) {
    let mut problems = Vec::new();
    let mut inconclusive = Vec::new();
    let log = Arc::new(Log::default());
    let gates = Gates::default();
    let alpn: &[&str] = match w.proto {
        Proto::H2 => &["h2"],
        Proto::H1 => &["http/1.1"],
        Proto::Auto => &["h2", "http/1.1"],
    };
    let tls = if w.tls { Some(Arc::new(server_tls("good", alpn))) } else { None };
    let server = spawn_server(ServerSpec { id: 0, proto: w.proto, net: w.net, tls, graceful: false, sni_validation: false }, log.clone(), gates.clone()).await;
    let routes = Routes { log: log.clone(), ..Default::default() };
    routes.add("a.test", server.target.clone());
    let client_tls_cfg = if w.tls { Some(client_tls(alpn)) } else { None };
    let client = build_client(routes.clone(), None, client_tls_cfg, None);
    let mut stalled: Vec<RawIo> = Vec::new();
    let mut id = 1000u64;

    if w.faults.first() == Some(&Fault::DuplexZeroBuffer) {
        let _ = tokio::time::timeout(Duration::from_secs(60), inject(Fault::DuplexZeroBuffer, w, &server.target, &mut stalled, paused)).await;
        settle(paused).await;
    }
    // baseline probe
    if let Err((s, m)) = do_probe(client.clone(), probe_spec(id, w, None)).await {
        if !paused {
            inconclusive.push(format!("baseline probe failed in a real-socket world: {s}: {m}"));
        } else {
            problems.push((format!("baseline:{s}"), m));
        }
        return (problems, inconclusive);
    }
    for (k, f) in w.faults.iter().enumerate() {
        id += 10;
        // a healthy request that is inside its handler while the fault happens
        let gname = format!("inflight{k}");
        let inflight = tokio::spawn(do_probe(client.clone(), probe_spec(id + 1, w, Some(gname.clone()))));
        settle(paused).await;
        match tokio::time::timeout(Duration::from_secs(60), inject(*f, w, &server.target, &mut stalled, paused)).await {
            Ok(Ok(())) => {}
            Ok(Err(e)) => inconclusive.push(format!("fault {f:?} could not be injected: {e}")),
            // paused clock: the virtual minute passes only when nothing can make progress any more, i.e. the faulty
            // client was never accepted; the probe below decides whether the server still accepts anybody
            Err(_) if paused => {}
            Err(_) => inconclusive.push(format!("fault {f:?}: injection did not finish within 60 s")),
        }
        settle(paused).await;
        if server.join.is_finished() {
            problems.push((format!("server-future-ended-after-fault:{f:?}:{}{}", match w.net { Net::Duplex(_) => "duplex", Net::Tcp => "tcp", Net::Unix => "unix" }, if w.tls { "+tls" } else { "" }), format!("the serving future resolved after fault {f:?} although no shutdown, listener loss or make-service error occurred")));
            break;
        }
        if let Err((s, m)) = do_probe(client.clone(), probe_spec(id + 2, w, None)).await {
            problems.push((format!("after-fault:{s}:{f:?}"), format!("{m} (after fault {f:?})")));
        }
        gates.open(&gname);
        match tokio::time::timeout(Duration::from_secs(30), inflight).await {
            Err(_) => problems.push((format!("concurrent-request-never-completes:{f:?}"), format!("a healthy request in flight during fault {f:?} never completed"))),
            Ok(Err(e)) => problems.push(("inflight-task-panicked".into(), format!("{e}"))),
            Ok(Ok(Err((s, m)))) => problems.push((format!("concurrent-request-disturbed:{s}:{f:?}"), format!("{m} (in flight during fault {f:?})"))),
            Ok(Ok(Ok(()))) => {}
        }
    }
    settle(paused).await;
    if !server.join.is_finished() {
        // fine: still serving
    }
    drop(stalled);
    server.join.abort();
    (problems, inconclusive)
}

pub fn gen_worlds(seed: u64, thorough: bool) -> Vec<FaultWorld> {
    let mut rng = StdRng::seed_from_u64(seed ^ 0xfa17);
    let mut v = Vec::new();
    let nets = [Net::Duplex(8192), Net::Tcp, Net::Unix];
    for proto in [Proto::Auto, Proto::H1, Proto::H2] {
        for net in nets {
            for tls in [false, true] {
                let base = FaultWorld { proto, net, tls, faults: vec![] };
                let app: Vec<Fault> = ALL_FAULTS.iter().copied().filter(|f| applicable(*f, &base)).collect();
                for f in &app {
                    v.push(FaultWorld { faults: vec![*f], ..base.clone() });
                }
                let nseq = if thorough { 60 } else { 3 };
                for _ in 0..nseq {
                    let k = rng.gen_range(2..=4);
                    v.push(FaultWorld { faults: (0..k).map(|_| *app.choose(&mut rng).unwrap()).collect(), ..base.clone() });
                }
            }
        }
    }
    v
}

pub fn run(args: &Args) -> Report {
    let worlds = if let Some(path) = &args.replay {
        let v: Value = serde_json::from_str(&std::fs::read_to_string(path).unwrap()).unwrap();
        vec![FaultWorld::from_json(&v["replay"])]
    } else {
        gen_worlds(args.seed, args.tier_thorough)
    };
    let wr = &worlds;
    let mut rep = crate::report::parallel(args.threads.min(8), worlds.len() as u64, "faults", |i, r| {
        let w = &wr[i as usize];
        let paused = matches!(w.net, Net::Duplex(_));
        let (problems, inconclusive) = if paused {
            // The world runs on its own OS thread. A virtual-time world needs milliseconds of real time; if its single
            // runtime thread is still busy after two real minutes, some task never yields (no virtual timeout can fire
            // then): the server - and everything else on that thread - is wedged. That is a verdict, not a watchdog:
            // the thread is left behind and the process carries on.
            let w2 = w.clone();
            let (tx, rx) = std::sync::mpsc::channel();
            std::thread::Builder::new()
                .name("fault-world".into())
                .spawn(move || {
                    let rt = tokio::runtime::Builder::new_current_thread().enable_all().start_paused(true).build().unwrap();
                    // the virtual day passes only if the world can make no progress at all
                    let out = match rt.block_on(async { tokio::time::timeout(Duration::from_secs(86_400), run_world(&w2, true)).await }) {
                        Ok(x) => x,
                        Err(_) => (vec![("world-makes-no-progress".to_string(), "the world neither finished nor failed: nothing is runnable and no client-side timeout is pending".to_string())], vec![]),
                    };
                    let _ = tx.send(out);
                })
                .unwrap();
            match rx.recv_timeout(Duration::from_secs(120)) {
                Ok(x) => x,
                Err(std::sync::mpsc::RecvTimeoutError::Timeout) => (
                    vec![(
                        format!("server-thread-wedged-after-fault:{}", w.faults.iter().map(|f| format!("{f:?}")).collect::<Vec<_>>().join("+")),
                        "the runtime thread that serves the world has been busy for 120 s of real time without reaching any await point that yields: a per-connection task spins (the world normally completes in milliseconds and every wait in it is bounded in virtual time)".to_string(),
                    )],
                    vec![],
                ),
                Err(std::sync::mpsc::RecvTimeoutError::Disconnected) => (vec![("world-thread-panicked".to_string(), "the thread running the world panicked".to_string())], vec![]),
            }
        } else {
            // real sockets, real time, two worker threads; again on an OS thread of its own. The world's own 120 s
            // watchdog (inconclusive) needs one free worker to fire; if nothing at all comes back after 300 s, every
            // worker is spinning and no timer can fire any more.
            let w2 = w.clone();
            let (tx, rx) = std::sync::mpsc::channel();
            std::thread::Builder::new()
                .name("fault-world-rt".into())
                .spawn(move || {
                    let rt = tokio::runtime::Builder::new_multi_thread().worker_threads(2).enable_all().build().unwrap();
                    let out = rt.block_on(async { tokio::time::timeout(Duration::from_secs(120), run_world(&w2, false)).await });
                    rt.shutdown_timeout(Duration::from_millis(100));
                    let _ = tx.send(match out {
                        Ok(x) => x,
                        Err(_) => (vec![], vec![format!("wall-clock watchdog fired in world {}", w2.to_json())]),
                    });
                })
                .unwrap();
            match rx.recv_timeout(Duration::from_secs(300)) {
                Ok(x) => x,
                Err(std::sync::mpsc::RecvTimeoutError::Timeout) => (
                    vec![(
                        format!("server-threads-wedged-after-fault:{}", w.faults.iter().map(|f| format!("{f:?}")).collect::<Vec<_>>().join("+")),
                        "nothing came back from the world within 300 s although its own 120 s timeout only needs one runtime worker that reaches an await point: every worker thread is spinning in a per-connection task".to_string(),
                    )],
                    vec![],
                ),
                Err(std::sync::mpsc::RecvTimeoutError::Disconnected) => (vec![], vec!["the thread running a real-socket world panicked".to_string()]),
            }
        };
        let p = r.prop("C09", RULE);
        p.eval(Some(hash_of(&format!("{}", w.to_json()))));
        p.count("worlds", 1);
        p.count(&format!("worlds_{}{}", match w.net { Net::Duplex(_) => "duplex", Net::Tcp => "tcp", Net::Unix => "unix" }, if w.tls { "_tls" } else { "" }), 1);
        for f in &w.faults {
            p.count(&format!("fault_{f:?}"), 1);
        }
        p.inconclusive.extend(inconclusive);
        for (sig, msg) in problems {
            p.violation(sig, format!("{msg} | world {}", w.to_json()), w.to_json());
        }
        if p.samples.len() < 4 && w.faults.len() >= 2 {
            p.sample(json!({"world": w.to_json(), "after_each_fault": "server future pending, fresh probe served intact, gated in-flight request completed intact"}));
        }
    });
    if let Some(p) = rep.props.get_mut("C09") {
        p.exhaustive = Some(false);
        p.assume("kernel-level accept errors (EMFILE, ECONNABORTED) cannot be injected; a scripted Accept returning an error is listener loss by the property's own wording");
        p.assume("duplex worlds run under the paused clock (exact); TCP/Unix worlds use 40 ms settling sleeps and a 120 s watchdog whose expiry is inconclusive");
    }
    rep
}
