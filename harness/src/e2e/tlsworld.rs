//! TLS worlds: C12 (https/wss never in the clear), the wire part of C13 (protocol choice, request line,
//! Host header) and the end-to-end sample of C20 (SNI validation behind a real TLS server).

use std::future::Future;
use std::pin::Pin;
use std::sync::Arc;
use std::task::{Context, Poll};
use std::time::Duration;

use http_body_util::BodyExt;
use serde_json::{json, Value};
use tokio::io::{AsyncReadExt, AsyncWriteExt};
use tower::{Layer, ServiceExt};

use super::faults::{raw_connect, RawIo};
use super::*;
use crate::report::{hash_of, Args, Report};

// ---------------------------------------------------------------------------------------------
// SNI validating server
// ---------------------------------------------------------------------------------------------

#[derive(Debug)]
pub struct HandlerErr(String);
impl std::fmt::Display for HandlerErr {
    fn fmt(&self, f: &mut std::fmt::Formatter<'_>) -> std::fmt::Result {
        write!(f, "{}", self.0)
    }
}
impl std::error::Error for HandlerErr {}

#[derive(Clone)]
pub struct ErrAdapter(Handler);

impl tower::Service<Request<Body>> for ErrAdapter {
    type Response = Response<ChunkBody>;
    type Error = HandlerErr;
    type Future = Pin<Box<dyn Future<Output = Result<Response<ChunkBody>, HandlerErr>> + Send>>;
    fn poll_ready(&mut self, _cx: &mut Context<'_>) -> Poll<Result<(), Self::Error>> {
        Poll::Ready(Ok(()))
    }
    fn call(&mut self, req: Request<Body>) -> Self::Future {
        let f = self.0.call(req);
        Box::pin(async move { f.await.map_err(|e| HandlerErr(e.to_string())) })
    }
}

#[derive(Clone)]
pub struct MakeSniHandler(MakeHandler);

impl<'a, IO> tower::Service<&'a IO> for MakeSniHandler {
    type Response = hyperdriver::server::conn::tls::sni::ValidateSNIService<ErrAdapter>;
    type Error = std::convert::Infallible;
    type Future = std::future::Ready<Result<Self::Response, Self::Error>>;
    fn poll_ready(&mut self, _cx: &mut Context<'_>) -> Poll<Result<(), Self::Error>> {
        Poll::Ready(Ok(()))
    }
    fn call(&mut self, io: &'a IO) -> Self::Future {
        let h = self.0.call(io).into_inner().unwrap();
        std::future::ready(Ok(hyperdriver::server::conn::tls::sni::ValidateSNI.layer(ErrAdapter(h))))
    }
}

pub fn spawn_sni_server(
    p: Proto,
    acceptor: hyperdriver::server::conn::Acceptor,
    make: MakeHandler,
    e: CountExec,
    _graceful: bool,
    rx: tokio::sync::oneshot::Receiver<()>,
) -> tokio::task::JoinHandle<Result<(), String>> {
    let make = MakeSniHandler(make);
    macro_rules! run {
        ($server:expr) => {{
            let server = $server;
            tokio::spawn(async move {
                let _keep = rx;
                server.await.map_err(|e| e.to_string())
            })
        }};
    }
    match p {
        Proto::Auto => run!(hyperdriver::Server::builder().with_acceptor(acceptor).with_protocol(hyperdriver::server::AutoBuilder::new(e.clone())).with_make_service(make).with_tls_connection_info().with_executor(e.clone())),
        Proto::H1 => run!(hyperdriver::Server::builder().with_acceptor(acceptor).with_http1().with_make_service(make).with_tls_connection_info().with_executor(e.clone())),
        Proto::H2 => run!(hyperdriver::Server::builder().with_acceptor(acceptor).with_protocol(hyperdriver::server::conn::http2::Builder::new(e.clone())).with_make_service(make).with_tls_connection_info().with_executor(e.clone())),
    }
}

// ---------------------------------------------------------------------------------------------
// C12
// ---------------------------------------------------------------------------------------------

const RULE12: &str = "TLS worlds on duplex (paused clock) and TCP: client = public stack with TlsTransport::with_tls(fixture CA); cases = scheme {http, https, ws, wss, ftp, HTTPS, Wss, WSS; parsed from text and assembled from parts incl. Https, hTTpS} x caller-supplied Host header naming another host {absent, other.test} x user information in the authority x numeric-looking non-IPv4 hosts; sequences of 2-3 requests with different schemes to one authority through one pooled client (plain and TLS server behind the same authority); host {DNS lower/upper/underscore/punycode, IPv4 literal, [::1], [::ffff:127.0.0.1]} x port {absent, default, other} x server certificate {matching, wrong name, untrusted CA, expired} x ALPN offers on both sides x handshake faults {peer closes after ClientHello, peer answers plaintext, truncated ServerHello, stall}; oracle = client-side byte tap of the raw transport (TLS record header first, request marker never in the clear), SNI seen by the server, client result, panic hook; non-trivial = every case; distinct by case";

#[derive(Clone, Debug, Hash)]
pub struct TlsCase {
    pub scheme: &'static str,
    pub host: &'static str,
    pub port: Option<u16>,
    pub cert: &'static str,
    pub client_alpn: &'static [&'static str],
    pub server_alpn: &'static [&'static str],
    pub fault: &'static str,
    pub h2_request: bool,
    pub tcp: bool,
    /// the URI is assembled with `Uri::builder()` (a non-lowercase scheme then stays `Other("HTTPS")`)
    pub from_parts: bool,
    /// a Host header supplied by the caller, naming something else than the URI host
    pub preset_host: Option<&'static str>,
    /// user information in front of the host (`userinfo@host`)
    pub userinfo: Option<&'static str>,
}

impl TlsCase {
    fn to_json(&self) -> Value {
        json!({"engine": "tlsworld", "scheme": self.scheme, "host": self.host, "port": self.port, "cert": self.cert, "client_alpn": self.client_alpn, "server_alpn": self.server_alpn, "fault": self.fault, "h2_request": self.h2_request, "tcp": self.tcp, "from_parts": self.from_parts, "preset_host": self.preset_host, "userinfo": self.userinfo})
    }
    fn authority(&self) -> String {
        let hp = match self.port {
            Some(p) => format!("{}:{}", self.host, p),
            None => self.host.to_string(),
        };
        match self.userinfo {
            Some(u) => format!("{u}@{hp}"),
            None => hp,
        }
    }
}

pub const SCHEMES: [&str; 8] = ["http", "https", "ws", "wss", "ftp", "HTTPS", "Wss", "WSS"];
pub const HOSTS: [&str; 8] = ["example.com", "EXAMPLE.test", "a.test", "under_score.test", "xn--nxasmq6b.example", "127.0.0.1", "[::1]", "[::ffff:127.0.0.1]"];

fn secure(scheme: &str) -> bool {
    scheme.eq_ignore_ascii_case("https") || scheme.eq_ignore_ascii_case("wss")
}

/// a scripted peer for handshake faults
async fn fault_peer(mut io: hyperdriver::stream::duplex::DuplexStream, fault: &'static str, seen: Arc<Mutex<Vec<u8>>>) {
    let mut buf = vec![0u8; 4096];
    match fault {
        "close-after-hello" => {
            if let Ok(n) = io.read(&mut buf).await {
                seen.lock().unwrap().extend_from_slice(&buf[..n]);
            }
            drop(io);
        }
        "plaintext-answer" => {
            if let Ok(n) = io.read(&mut buf).await {
                seen.lock().unwrap().extend_from_slice(&buf[..n]);
            }
            let _ = io.write_all(b"HTTP/1.1 200 OK\r\ncontent-length: 2\r\n\r\nok").await;
            loop {
                match io.read(&mut buf).await {
                    Ok(0) | Err(_) => break,
                    Ok(n) => seen.lock().unwrap().extend_from_slice(&buf[..n]),
                }
            }
        }
        "truncated-server-hello" => {
            if let Ok(n) = io.read(&mut buf).await {
                seen.lock().unwrap().extend_from_slice(&buf[..n]);
            }
            // handshake record header + a piece of a ServerHello
            let _ = io.write_all(&[0x16, 0x03, 0x03, 0x00, 0x7a, 0x02, 0x00, 0x00, 0x76, 0x03, 0x03, 1, 2, 3, 4, 5, 6, 7]).await;
            drop(io);
        }
        _ => {
            // stall: read forever, never answer
            loop {
                match io.read(&mut buf).await {
                    Ok(0) | Err(_) => break,
                    Ok(n) => seen.lock().unwrap().extend_from_slice(&buf[..n]),
                }
            }
        }
    }
}

pub struct TlsOutcome {
    pub result: Result<(http::StatusCode, http::HeaderMap, Vec<u8>), String>,
    pub tap: Vec<u8>,
    pub peer_seen: Vec<u8>,
    pub handled: Vec<Handled>,
    pub panicked: Option<String>,
    pub timed_out: bool,
}

pub const MARKER: &str = "S3CR3T-MARKER-7f3a";

pub async fn run_tls_case(c: &TlsCase) -> TlsOutcome {
    let log = Arc::new(Log::default());
    let gates = Gates::default();
    let routes = Routes { log: log.clone(), tap_enabled: true, ..Default::default() };
    let peer_seen = Arc::new(Mutex::new(Vec::new()));
    let mut _server = None;
    if c.fault == "none" {
        // a TLS peer that only offers h2 is an HTTP/2 server; everything else auto-detects
        let server_proto = if secure(c.scheme) && c.server_alpn == ["h2"] { Proto::H2 } else { Proto::Auto };
        let tls = Some(Arc::new(server_tls(c.cert, c.server_alpn)));
        // plain-scheme requests go to a plain server under the same authority
        let tls = if secure(c.scheme) { tls } else { None };
        let h = spawn_server(ServerSpec { id: 0, proto: server_proto, net: if c.tcp { Net::Tcp } else { Net::Duplex(16_384) }, tls, graceful: false, sni_validation: false }, log.clone(), gates.clone()).await;
        routes.add(&c.authority(), h.target.clone());
        _server = Some(h);
    } else {
        let (client, mut incoming) = hyperdriver::stream::duplex::pair();
        routes.add(&c.authority(), Target::Duplex(client, 16_384));
        let seen = peer_seen.clone();
        let fault = c.fault;
        tokio::spawn(async move {
            use futures_util::StreamExt;
            while let Some(Ok(io)) = incoming.next().await {
                tokio::spawn(fault_peer(io, fault, seen.clone()));
            }
        });
    }
    // the protocol service is not ready at once in two cases of three (decided by the case itself, so a replay agrees)
    let pending_polls = (hash_of(&c.to_json().to_string()) % 3) as usize;
    PROTOCOL_PENDING_POLLS.with(|p| p.set(pending_polls));
    BUILDER_TLS_BEFORE_BODY.with(|p| p.set(hash_of(&c.to_json().to_string()) % 2 == 1));
    let client = build_client(routes.clone(), None, Some(client_tls(c.client_alpn)), None);
    PROTOCOL_PENDING_POLLS.with(|p| p.set(0));
    BUILDER_TLS_BEFORE_BODY.with(|p| p.set(false));
    let uri = if c.from_parts {
        http::Uri::builder().scheme(c.scheme).authority(c.authority()).path_and_query(format!("/r/4242/{MARKER}?m={MARKER}")).build().map_err(|e| e.to_string())
    } else {
        format!("{}://{}/r/4242/{MARKER}?m={MARKER}", c.scheme, c.authority()).parse::<http::Uri>().map_err(|e| e.to_string())
    };
    let outcome = match uri {
        Err(e) => Err(format!("uri does not parse: {e}")),
        Ok(uri) => {
            let mut b = Request::builder()
                .method("POST")
                .uri(uri)
                .version(if c.h2_request { http::Version::HTTP_2 } else { http::Version::HTTP_11 })
                .header("x-id", 4242u64)
                .header("x-marker", MARKER);
            if let Some(hh) = c.preset_host {
                b = b.header("host", hh);
            }
            let req = b.body(ChunkBody::new(format!("{MARKER}{MARKER}").into_bytes(), 0, 0)).unwrap();
            let fut = async move {
                let resp = client.oneshot(req).await.map_err(|e| format!("{e:?}"))?;
                let (parts, body) = resp.into_parts();
                let data = body.collect().await.map_err(|e| format!("body: {e:?}"))?.to_bytes();
                Ok::<_, String>((parts.status, parts.headers, data.to_vec()))
            };
            let limit = if c.tcp { Duration::from_secs(20) } else { Duration::from_secs(3600) };
            // the request runs in its own task so that a panic is observed, not propagated
            let h = tokio::spawn(fut);
            match tokio::time::timeout(limit, h).await {
                Err(_) => Err("TIMEOUT".to_string()),
                Ok(Err(join)) => Err(format!("PANIC: {join}")),
                Ok(Ok(r)) => r,
            }
        }
    };
    for _ in 0..3 {
        tokio::time::sleep(Duration::from_millis(2)).await;
    }
    let tap = routes.taps.lock().unwrap().iter().flat_map(|(_, t)| t.lock().unwrap().written.clone()).collect::<Vec<u8>>();
    let timed_out = matches!(&outcome, Err(e) if e == "TIMEOUT");
    let panicked = match &outcome {
        Err(e) if e.starts_with("PANIC") => Some(e.clone()),
        _ => None,
    };
    let handled = log.handled.lock().unwrap().clone();
    let seen = peer_seen.lock().unwrap().clone();
    TlsOutcome { result: outcome, tap, peer_seen: seen, handled, panicked, timed_out }
}

fn contains(hay: &[u8], needle: &[u8]) -> bool {
    hay.windows(needle.len()).any(|w| w == needle)
}

pub fn judge_tls(c: &TlsCase, o: &TlsOutcome, rep: &mut Report, args: &Args) {
    let replay = c.to_json();
    let numeric_last_label = c.host.rsplit('.').next().map(|l| !l.is_empty() && l.chars().all(|ch| ch.is_ascii_digit())).unwrap_or(false);
    let host_class = if c.host.starts_with('[') {
        "ipv6-literal"
    } else if c.host.parse::<std::net::Ipv4Addr>().is_ok() {
        "ipv4-literal"
    } else if numeric_last_label {
        // URI-legal, but neither an IPv4 literal nor a name a certificate can be issued for
        "numeric-not-ipv4"
    } else {
        "dns-name"
    };
    let scheme_class = if c.scheme.chars().any(|ch| ch.is_ascii_uppercase()) { format!("{}-mixed-case", c.scheme.to_ascii_lowercase()) } else { c.scheme.to_string() };
    if args.wants("C12") {
        let p = rep.prop("C12", RULE12);
        p.eval(Some(hash_of(&format!("{replay}"))));
        p.count(if secure(c.scheme) { "cases_secure_scheme" } else { "cases_plain_scheme" }, 1);
        p.count(&format!("cases_cert_{}", c.cert), 1);
        p.count(&format!("cases_fault_{}", c.fault), 1);
        p.count(&format!("cases_host_{host_class}"), 1);
        if c.from_parts {
            p.count("cases_uri_built_from_parts", 1);
        }
        if c.preset_host.is_some() {
            p.count("cases_caller_host_header_differs_from_uri_host", 1);
        }
        if c.userinfo.is_some() {
            p.count("cases_uri_with_userinfo", 1);
        }
        if let Some(pn) = &o.panicked {
            p.violation(format!("panic:{host_class}:{scheme_class}"), format!("request to {}://{} panicked: {pn} | case {replay}", c.scheme, c.authority()), replay.clone());
        } else if o.timed_out && c.fault != "stall" {
            if c.tcp {
                p.inconclusive.push(format!("watchdog fired: {replay}"));
            } else {
                p.violation(format!("request-never-resolves:{}", c.fault), format!("request neither succeeded nor failed at quiescence | case {replay}"), replay.clone());
            }
        }
        let marker_in_clear = contains(&o.tap, MARKER.as_bytes()) || contains(&o.peer_seen, MARKER.as_bytes());
        if secure(c.scheme) {
            if marker_in_clear {
                p.violation(format!("plaintext-request-on-secure-scheme:{scheme_class}:{}", c.fault), format!("the request marker travelled in the clear for {}://{} | case {replay}", c.scheme, c.authority()), replay.clone());
            }
            if !o.tap.is_empty() && !(o.tap[0] == 0x16 && o.tap.get(1) == Some(&0x03)) {
                p.violation(format!("first-bytes-not-tls:{scheme_class}"), format!("first bytes on the wire {:02x?} are not a TLS handshake record | case {replay}", &o.tap[..o.tap.len().min(8)]), replay.clone());
            }
            let must_fail = c.cert != "good" || c.fault != "none" || host_class == "numeric-not-ipv4" || c.host == "other.test";
            match (&o.result, must_fail) {
                (Ok(_), true) => p.violation(format!("request-succeeded-despite:{}:{}", c.cert, c.fault), format!("request succeeded although the peer certificate/handshake must be rejected | case {replay}"), replay.clone()),
                (Err(e), false) if o.panicked.is_none() && !o.timed_out => {
                    // a good certificate for this host: the request must go through
                    p.violation(format!("valid-tls-request-failed:{host_class}:{scheme_class}"), format!("request to {}://{} with a matching certificate failed: {e} | case {replay}", c.scheme, c.authority()), replay.clone());
                }
                _ => {}
            }
            if must_fail && !o.handled.is_empty() {
                p.violation("handler-reached-despite-tls-failure", format!("server handler ran for a request whose TLS verification must fail | case {replay}"), replay.clone());
            }
            if let (Ok(_), Some(h)) = (&o.result, o.handled.first()) {
                p.count("handshakes_completed", 1);
                if host_class == "dns-name" {
                    let want = c.host.to_ascii_lowercase();
                    if h.tls_sni.as_deref().map(|s| s.to_ascii_lowercase()) != Some(want.clone()) {
                        p.violation("sni-is-not-the-uri-host", format!("server saw SNI {:?} for URI host {} | case {replay}", h.tls_sni, c.host), replay.clone());
                    }
                }
            }
        } else {
            // plain scheme: not wrapped
            if !o.tap.is_empty() && o.tap[0] == 0x16 {
                p.violation(format!("plain-scheme-wrapped-in-tls:{scheme_class}"), format!("request with scheme {} was sent inside TLS | case {replay}", c.scheme), replay.clone());
            }
            if o.tap.is_empty() && o.result.is_ok() {
                p.violation("tap-saw-nothing", format!("request succeeded but nothing was written | case {replay}"), replay.clone());
            }
            if let Err(e) = &o.result {
                if o.panicked.is_none() && !o.timed_out && c.fault == "none" {
                    p.violation(format!("plain-request-failed:{scheme_class}"), format!("plain request failed: {e} | case {replay}"), replay.clone());
                }
            }
        }
        if p.samples.len() < 4 && secure(c.scheme) && c.fault == "none" {
            p.sample(json!({"case": replay, "result": o.result.as_ref().map(|r| r.0.as_u16()).map_err(|e| e.chars().take(120).collect::<String>()), "first_wire_bytes": format!("{:02x?}", &o.tap[..o.tap.len().min(6)]), "sni_seen": o.handled.first().and_then(|h| h.tls_sni.clone())}));
        }
    }
    if args.wants("C13") && c.fault == "none" && c.cert == "good" && c.userinfo.is_none() {
        let p = rep.prop("C13", RULE13W);
        if let (Ok(_), Some(h)) = (&o.result, o.handled.first()) {
            p.eval(Some(hash_of(&format!("{replay}"))));
            let alpn_h2 = secure(c.scheme) && c.client_alpn.contains(&"h2") && c.server_alpn.contains(&"h2");
            let want_h2 = c.h2_request || alpn_h2;
            let got_h2 = h.version == "HTTP/2.0";
            p.count(if got_h2 { "wire_connections_h2" } else { "wire_connections_h1" }, 1);
            if want_h2 != got_h2 {
                p.violation(
                    format!("wire:protocol-choice:request-{}-alpn-{}:got-{}", if c.h2_request { "h2" } else { "h1" }, if alpn_h2 { "h2" } else { "none" }, if got_h2 { "h2" } else { "h1" }),
                    format!("fresh connection spoke {} for a {} request with ALPN result {} | case {replay}", h.version, if c.h2_request { "HTTP/2" } else { "HTTP/1.1" }, if alpn_h2 { "h2" } else { "not h2" }),
                    replay.clone(),
                );
            }
            let default_port = if secure(c.scheme) { 443 } else { 80 };
            let known = ["http", "https", "ws", "wss"].contains(&c.scheme.to_ascii_lowercase().as_str());
            if got_h2 {
                if h.host_header.is_some() {
                    p.violation("wire:h2-host-header-present", format!("handler saw Host {:?} on an HTTP/2 request | case {replay}", h.host_header), replay.clone());
                }
                if h.authority.as_deref().map(|a| a.to_ascii_lowercase()) != Some(c.authority().to_ascii_lowercase()) {
                    p.violation("wire:h2-authority-altered", format!("handler saw :authority {:?}, URI authority {} | case {replay}", h.authority, c.authority()), replay.clone());
                }
            } else {
                let want = match c.port {
                    Some(pn) if !(known && pn == default_port) => format!("{}:{}", c.host, pn),
                    _ => c.host.to_string(),
                };
                let want = c.preset_host.map(str::to_string).unwrap_or(want);
                let ok = h.host_header.as_deref() == Some(&want) || (!known && h.host_header.as_deref() == Some(c.host));
                if !ok {
                    p.violation(format!("wire:h1-host-header:{scheme_class}"), format!("Host on the wire {:?}, want {want:?} | case {replay}", h.host_header), replay.clone());
                }
                let want_pq = format!("/r/4242/{MARKER}?m={MARKER}");
                if h.path_query != want_pq {
                    p.violation("wire:h1-target-altered", format!("request target {:?}, want {want_pq:?} | case {replay}", h.path_query), replay.clone());
                }
                if !secure(c.scheme) {
                    // plain connection: the exact request line is on the tap
                    let line_end = o.tap.windows(2).position(|w| w == b"\r\n").unwrap_or(0);
                    let line = String::from_utf8_lossy(&o.tap[..line_end]).to_string();
                    if line != format!("POST {want_pq} HTTP/1.1") {
                        p.violation("wire:h1-request-line", format!("request line {line:?} | case {replay}"), replay.clone());
                    }
                }
            }
            if p.samples.len() < 3 {
                p.sample(json!({"case": replay, "server_saw_version": h.version, "host_header": h.host_header, "authority": h.authority, "target": h.path_query}));
            }
        }
    }
}

const RULE13W: &str = "wire part: full client stack against hyperdriver servers (plain and TLS) on fresh connections: request version x ALPN offers on both sides decide HTTP/2 vs HTTP/1.1 (server-side observed version), HTTP/1 request line from the client-side byte tap, Host / :authority seen by the handler; non-trivial = request reached the handler";

pub fn gen_tls_cases(thorough: bool) -> Vec<TlsCase> {
    let mut v = Vec::new();
    const BOTH: &[&str] = &["h2", "http/1.1"];
    const H1: &[&str] = &["http/1.1"];
    const H2: &[&str] = &["h2"];
    const NONE: &[&str] = &[];
    let alpns: [(&'static [&'static str], &'static [&'static str]); 6] = [(BOTH, BOTH), (H1, BOTH), (BOTH, H1), (NONE, BOTH), (BOTH, NONE), (H2, H2)];
    for scheme in SCHEMES {
        for host in HOSTS {
            for port in [None, Some(443u16), Some(80), Some(8443)] {
                for (ca, sa) in alpns {
                    for h2_request in [false, true] {
                        // an HTTP/2 request over TLS needs a peer that speaks h2
                        if h2_request && secure(scheme) && !sa.contains(&"h2") && !sa.is_empty() {
                            continue;
                        }
                        if !thorough && (port == Some(80) || port == Some(8443)) && (ca, sa) != (BOTH, BOTH) {
                            continue;
                        }
                        v.push(TlsCase { scheme, host, port, cert: "good", client_alpn: ca, server_alpn: sa, fault: "none", h2_request, tcp: false, from_parts: false, preset_host: None, userinfo: None });
                    }
                }
            }
        }
    }
    // certificates that must be rejected, handshake faults
    for scheme in ["https", "wss", "WSS", "HTTPS"] {
        for host in ["example.com", "a.test", "127.0.0.1", "EXAMPLE.test"] {
            for cert in ["wrongname", "untrusted", "expired"] {
                if cert == "expired" && host == "127.0.0.1" {
                    continue;
                }
                for h2_request in [false, true] {
                    v.push(TlsCase { scheme, host, port: Some(443), cert, client_alpn: BOTH, server_alpn: BOTH, fault: "none", h2_request, tcp: false, from_parts: false, preset_host: None, userinfo: None });
                }
            }
            for fault in ["close-after-hello", "plaintext-answer", "truncated-server-hello", "stall"] {
                v.push(TlsCase { scheme, host, port: None, cert: "good", client_alpn: BOTH, server_alpn: BOTH, fault, h2_request: false, tcp: false, from_parts: false, preset_host: None, userinfo: None });
            }
        }
    }
    // URIs assembled from parts: a non-lowercase scheme is then not normalised by the parser
    for scheme in ["https", "HTTPS", "Https", "hTTpS", "wss", "WSS", "Wss", "http", "HTTP", "Ws", "ftp"] {
        for host in ["example.com", "127.0.0.1", "[::1]", "EXAMPLE.test"] {
            for port in [None, Some(443u16), Some(8443)] {
                for h2_request in [false, true] {
                    if !thorough && h2_request && port == Some(8443) {
                        continue;
                    }
                    v.push(TlsCase { scheme, host, port, cert: "good", client_alpn: BOTH, server_alpn: BOTH, fault: "none", h2_request, tcp: false, from_parts: true, preset_host: None, userinfo: None });
                }
            }
            if secure(scheme) && host != "[::1]" {
                v.push(TlsCase { scheme, host, port: None, cert: "wrongname", client_alpn: BOTH, server_alpn: BOTH, fault: "none", h2_request: false, tcp: false, from_parts: true, preset_host: None, userinfo: None });
                v.push(TlsCase { scheme, host, port: None, cert: "good", client_alpn: BOTH, server_alpn: BOTH, fault: "plaintext-answer", h2_request: false, tcp: false, from_parts: true, preset_host: None, userinfo: None });
            }
        }
    }
    // a caller-supplied Host header naming something else than the URI host: the TLS name stays the URI host.
    // "wrongname" is a certificate for other.test only, "good" does not cover other.test.
    for scheme in ["https", "wss", "HTTPS"] {
        for host in ["example.com", "a.test", "127.0.0.1", "[::1]"] {
            for preset in ["other.test", "other.test:443", "OTHER.test"] {
                for cert in ["good", "wrongname"] {
                    for h2_request in [false, true] {
                        if !thorough && h2_request && preset != "other.test" {
                            continue;
                        }
                        v.push(TlsCase { scheme, host, port: None, cert, client_alpn: BOTH, server_alpn: BOTH, fault: "none", h2_request, tcp: false, from_parts: false, preset_host: Some(preset), userinfo: None });
                    }
                }
            }
        }
    }
    // hosts that look numeric but are not IPv4 literals: no panic, no plaintext, an error
    for scheme in ["https", "wss", "http"] {
        for host in ["1", "1.2.3", "example.123", "999.1.1.1", "1.2.3.4.5", "0x7f.1"] {
            for port in [None, Some(8443u16)] {
                v.push(TlsCase { scheme, host, port, cert: "good", client_alpn: BOTH, server_alpn: BOTH, fault: "none", h2_request: false, tcp: false, from_parts: false, preset_host: None, userinfo: None });
            }
        }
    }
    // user information in the authority: the TLS name is the URI *host*. The "good" certificate covers example.com,
    // a.test, 127.0.0.1 and ::1 but not other.test.
    for scheme in ["https", "wss"] {
        for (userinfo, host) in [("example.com:x", "other.test"), ("example.com", "other.test"), ("a.test:443", "other.test"), ("user", "example.com"), ("user:pw", "a.test"), ("other.test:x", "example.com"), ("user:pw", "[::1]"), ("u", "127.0.0.1")] {
            for port in [None, Some(8443u16)] {
                for h2_request in [false, true] {
                    if !thorough && h2_request && port.is_some() {
                        continue;
                    }
                    v.push(TlsCase { scheme, host, port, cert: "good", client_alpn: BOTH, server_alpn: BOTH, fault: "none", h2_request, tcp: false, from_parts: false, preset_host: None, userinfo: Some(userinfo) });
                }
            }
        }
    }
    // a TCP sample
    for scheme in ["https", "http", "wss"] {
        for host in ["a.test", "127.0.0.1", "example.com"] {
            for cert in ["good", "wrongname"] {
                v.push(TlsCase { scheme, host, port: Some(8443), cert, client_alpn: BOTH, server_alpn: BOTH, fault: "none", h2_request: false, tcp: true, from_parts: false, preset_host: None, userinfo: None });
            }
        }
    }
    v
}

// ---------------------------------------------------------------------------------------------
// C12: sequences of requests through one pooled client
// ---------------------------------------------------------------------------------------------

/// Two servers behind one authority (a plain one and a TLS one); a *pooled* client sends requests with different
/// schemes one after the other. Every https/wss request must travel inside TLS whatever the earlier requests left
/// in the pool, and every other request in the clear.
pub async fn run_tls_sequence(schemes: &[&'static str], host: &'static str, h2: bool) -> Vec<(String, String)> {
    let mut problems = Vec::new();
    let log = Arc::new(Log::default());
    let gates = Gates::default();
    let routes = Routes { log: log.clone(), tap_enabled: true, ..Default::default() };
    let alpn: &[&str] = if h2 { &["h2", "http/1.1"] } else { &["http/1.1"] };
    let plain = spawn_server(ServerSpec { id: 0, proto: Proto::Auto, net: Net::Duplex(16_384), tls: None, graceful: false, sni_validation: false }, log.clone(), gates.clone()).await;
    let secure_srv = spawn_server(ServerSpec { id: 1, proto: Proto::Auto, net: Net::Duplex(16_384), tls: Some(Arc::new(server_tls("good", alpn))), graceful: false, sni_validation: false }, log.clone(), gates.clone()).await;
    routes.add(&format!("plain|{host}"), plain.target.clone());
    routes.add(&format!("tls|{host}"), secure_srv.target.clone());
    let client = build_client(routes.clone(), Some(hyperdriver::client::PoolConfig::default()), Some(client_tls(alpn)), None);
    for (i, scheme) in schemes.iter().enumerate() {
        let id = 5000 + i as u64;
        let marker = format!("{MARKER}-{i}-{scheme}");
        let uri = format!("{scheme}://{host}/r/{id}/{marker}?m={marker}");
        let req = Request::builder().method("POST").uri(uri).version(http::Version::HTTP_11).header("x-id", id).header("x-marker", marker.as_str()).body(ChunkBody::new(marker.clone().into_bytes(), 0, 0)).unwrap();
        let c2 = client.clone();
        let h = tokio::spawn(async move {
            let resp = c2.oneshot(req).await.map_err(|e| format!("{e:?}"))?;
            let st = resp.status().as_u16();
            let _ = resp.into_body().collect().await;
            Ok::<_, String>(st)
        });
        let res = match tokio::time::timeout(Duration::from_secs(3600), h).await {
            Err(_) => Err("TIMEOUT".to_string()),
            Ok(Err(j)) => Err(format!("PANIC {j}")),
            Ok(Ok(r)) => r,
        };
        // let the connection find its way back into the pool
        for _ in 0..3 {
            tokio::time::sleep(Duration::from_millis(2)).await;
        }
        let in_clear = routes.taps.lock().unwrap().iter().any(|(_, t)| contains(&t.lock().unwrap().written, marker.as_bytes()));
        let seq = schemes[..=i].join(",");
        if secure(scheme) {
            if in_clear {
                problems.push((format!("sequence:plaintext-request-on-secure-scheme:{scheme}-after-{}", if i == 0 { "nothing" } else { schemes[i - 1] }), format!("request {i} ({scheme}://{host}) of the sequence [{seq}] through one pooled client travelled in the clear")));
            }
            if let Err(e) = &res {
                problems.push((format!("sequence:valid-tls-request-failed:{scheme}"), format!("request {i} of [{seq}] failed: {e}")));
            }
        } else {
            if !in_clear && res.is_ok() {
                problems.push((format!("sequence:plain-scheme-wrapped-in-tls:{scheme}-after-{}", if i == 0 { "nothing" } else { schemes[i - 1] }), format!("request {i} ({scheme}://{host}) of [{seq}] succeeded but never appeared in the clear on any connection")));
            }
            if let Err(e) = &res {
                problems.push((format!("sequence:plain-request-failed:{scheme}"), format!("request {i} of [{seq}] failed: {e}")));
            }
        }
    }
    drop(client);
    plain.join.abort();
    secure_srv.join.abort();
    problems
}

/// One pooled client that talks to many origins (more than a bounded key table may keep): an idle connection of the
/// first origin stays in the pool while `fillers` requests to NEW origins with the opposite kind of scheme follow. None
/// of them has a route, so each must fail without a byte written anywhere; a secure one must never appear in the clear,
/// a plain one must never be answered (it could only have travelled on the pooled TLS connection of the first origin).
pub async fn run_tls_key_pressure(first_secure: bool, fillers: usize) -> Vec<(String, String)> {
    let mut problems = Vec::new();
    let log = Arc::new(Log::default());
    let gates = Gates::default();
    let routes = Routes { log: log.clone(), tap_enabled: true, ..Default::default() };
    let alpn: &[&str] = &["http/1.1"];
    let plain = spawn_server(ServerSpec { id: 0, proto: Proto::Auto, net: Net::Duplex(16_384), tls: None, graceful: false, sni_validation: false }, log.clone(), gates.clone()).await;
    let secure_srv = spawn_server(ServerSpec { id: 1, proto: Proto::Auto, net: Net::Duplex(16_384), tls: Some(Arc::new(server_tls("good", alpn))), graceful: false, sni_validation: false }, log.clone(), gates.clone()).await;
    routes.add("plain|a.test", plain.target.clone());
    routes.add("tls|b.test", secure_srv.target.clone());
    let client = build_client(routes.clone(), Some(hyperdriver::client::PoolConfig::default()), Some(client_tls(alpn)), None);
    let send = |uri: String, id: u64, marker: String| {
        let c2 = client.clone();
        async move {
            let req = Request::builder().method("POST").uri(uri).version(http::Version::HTTP_11).header("x-id", id).header("x-marker", marker.as_str()).body(ChunkBody::new(marker.clone().into_bytes(), 0, 0)).unwrap();
            let h = tokio::spawn(async move {
                let resp = c2.oneshot(req).await.map_err(|e| format!("{e:?}"))?;
                let st = resp.status().as_u16();
                let _ = resp.into_body().collect().await;
                Ok::<_, String>(st)
            });
            match tokio::time::timeout(Duration::from_secs(3600), h).await {
                Err(_) => Err("TIMEOUT".to_string()),
                Ok(Err(j)) => Err(format!("PANIC {j}")),
                Ok(Ok(r)) => r,
            }
        }
    };
    let first = if first_secure { "https://b.test" } else { "http://a.test" };
    let m0 = format!("{MARKER}-first");
    if let Err(e) = send(format!("{first}/r/6000/{m0}?m={m0}"), 6000, m0.clone()).await {
        problems.push(("key-pressure:first-request-failed".to_string(), format!("{first}: {e}")));
    }
    for _ in 0..3 {
        tokio::time::sleep(Duration::from_millis(2)).await;
    }
    let filler_scheme = if first_secure { "http" } else { "https" };
    for k in 0..fillers {
        let id = 7000 + k as u64;
        let marker = format!("{MARKER}-filler-{k}");
        let res = send(format!("{filler_scheme}://k{k}.test/r/{id}/{marker}?m={marker}"), id, marker.clone()).await;
        let in_clear = routes.taps.lock().unwrap().iter().any(|(_, t)| contains(&t.lock().unwrap().written, marker.as_bytes()));
        let handled = log.handled.lock().unwrap().iter().any(|h| h.header_id == Some(id));
        if !first_secure && (in_clear || handled) {
            problems.push(("key-pressure:plaintext-request-on-secure-scheme".to_string(), format!("after {first} and {k} requests to other origins, the request to https://k{k}.test travelled in the clear (handled by a server: {handled}) -> {res:?}")));
            break;
        }
        if first_secure && (res.is_ok() || handled) {
            problems.push(("key-pressure:plain-request-rode-a-pooled-tls-connection".to_string(), format!("after {first} and {k} requests to other origins, the request to http://k{k}.test (no such origin) was answered: {res:?}")));
            break;
        }
        if matches!(&res, Err(e) if e.starts_with("PANIC") || e == "TIMEOUT") {
            problems.push(("key-pressure:request-panicked-or-hung".to_string(), format!("{filler_scheme}://k{k}.test -> {res:?}")));
            break;
        }
    }
    drop(client);
    plain.join.abort();
    secure_srv.join.abort();
    problems
}

// ---------------------------------------------------------------------------------------------
// C20 end to end
// ---------------------------------------------------------------------------------------------

const RULE20E: &str = "stack part: Acceptor::with_tls -> TlsConnectionInfoLayer -> ValidateSNI driven by hand, requests handed over before / after the handshake, two at a time, one cancelled; e2e part: real TLS hyperdriver server with with_tls_connection_info + ValidateSNI in front of the handler; the client picks the SNI (URI host) and the Host header independently, HTTP/1.1 and HTTP/2; oracle = handler reached (and validated flag set) iff Host equals SNI case-insensitively ignoring the port; non-trivial = every case";

#[derive(Clone, Debug, Hash)]
pub struct SniCaseE {
    pub uri_host: &'static str,
    pub host_header: Option<&'static str>,
    pub h2: bool,
    /// neither side offers ALPN protocols (a handshake that negotiates nothing besides the keys)
    pub no_alpn: bool,
}

pub async fn run_sni_case(c: &SniCaseE) -> (Result<u16, String>, Vec<Handled>) {
    let log = Arc::new(Log::default());
    let gates = Gates::default();
    let routes = Routes { log: log.clone(), ..Default::default() };
    let alpn: &[&str] = if c.no_alpn { &[] } else if c.h2 { &["h2"] } else { &["http/1.1"] };
    let h = spawn_server(
        ServerSpec { id: 0, proto: if c.h2 { Proto::H2 } else { Proto::H1 }, net: Net::Duplex(16_384), tls: Some(Arc::new(server_tls("good", alpn))), graceful: false, sni_validation: true },
        log.clone(),
        gates.clone(),
    )
    .await;
    routes.add(c.uri_host, h.target.clone());
    let client = build_client(routes, None, Some(client_tls(alpn)), None);
    let mut b = Request::builder().method("GET").uri(format!("https://{}/r/55/sni", c.uri_host)).version(if c.h2 { http::Version::HTTP_2 } else { http::Version::HTTP_11 }).header("x-id", 55u64);
    if let Some(hh) = c.host_header {
        b = b.header("host", hh);
    }
    let req = b.body(ChunkBody::default()).unwrap();
    let fut = async move {
        let resp = client.oneshot(req).await.map_err(|e| format!("{e:?}"))?;
        let status = resp.status().as_u16();
        let _ = resp.into_body().collect().await;
        Ok::<_, String>(status)
    };
    let r = match tokio::time::timeout(Duration::from_secs(3600), tokio::spawn(fut)).await {
        Err(_) => Err("TIMEOUT".into()),
        Ok(Err(j)) => Err(format!("PANIC {j}")),
        Ok(Ok(r)) => r,
    };
    let handled = log.handled.lock().unwrap().clone();
    h.join.abort();
    (r, handled)
}

/// The public server-side stack `Acceptor::with_tls` -> `TlsConnectionInfoLayer` -> `ValidateSNI` driven by hand: requests
/// are handed to the per-connection service before the TLS handshake has been driven, two at a time or with one of them
/// cancelled. Whatever the order, a request is forwarded iff its Host equals the server name of the connection.
pub async fn run_sni_stack_case(order: &'static str, hosts: &[&'static str]) -> Vec<(String, String)> {
    use hyperdriver::client::conn::transport::duplex::DuplexTransport;
    use hyperdriver::client::conn::transport::TransportExt as _;
    use hyperdriver::info::TlsConnectionInfo;
    use hyperdriver::server::conn::tls::sni::ValidateSNI;
    use hyperdriver::server::conn::tls::TlsConnectionInfoLayer;
    use hyperdriver::server::conn::AcceptExt as _;
    use hyperdriver::stream::tls::TlsHandshakeStream as _;
    use tower::make::Shared;
    use tower::{Layer, Service};
    install_crypto();
    let mut problems = Vec::new();
    let seen: Arc<Mutex<Vec<(String, Option<TlsConnectionInfo>)>>> = Arc::new(Mutex::new(Vec::new()));
    let app = {
        let seen = seen.clone();
        tower::service_fn(move |req: Request<()>| {
            let seen = seen.clone();
            async move {
                let host = req.headers().get(http::header::HOST).map(|h| h.to_str().unwrap().to_owned()).unwrap_or_default();
                let info = req.extensions().get::<TlsConnectionInfo>().cloned();
                seen.lock().unwrap().push((host, info));
                Ok::<_, std::convert::Infallible>(http::Response::new(()))
            }
        })
    };
    let (duplex_client, incoming) = hyperdriver::stream::duplex::pair();
    let acceptor = hyperdriver::server::conn::Acceptor::from(incoming).with_tls(Arc::new(server_tls("good", &["http/1.1"])));
    let client = tokio::spawn(async move {
        let mut transport = DuplexTransport::new(1024, duplex_client).with_tls(Arc::new(client_tls(&["http/1.1"])));
        let mut stream = transport.connect_with("https://example.com").await.map_err(|e| e.to_string())?;
        stream.finish_handshake().await.map_err(|e| e.to_string())?;
        Ok::<_, String>(stream)
    });
    let mut conn = match tokio::time::timeout(Duration::from_secs(600), acceptor.accept()).await {
        Ok(Ok(c)) => c,
        other => return vec![("stack:accept-failed".into(), format!("{:?}", other.map(|r| r.map(|_| ()).map_err(|e| e.to_string()))))],
    };
    let mut make_service = TlsConnectionInfoLayer::new().layer(Shared::new(ValidateSNI.layer(app)));
    let mut svc = match Service::call(&mut make_service, &conn).await {
        Ok(s) => s,
        Err(_) => return vec![("stack:make-service-failed".into(), String::new())],
    };
    let request = |host: &str| Request::builder().uri("/").header(http::header::HOST, host).body(()).unwrap();
    let noop = futures_util::task::noop_waker_ref();
    // requests handed over before the handshake
    let mut early: Vec<(&'static str, Pin<Box<dyn Future<Output = bool> + Send>>)> = Vec::new();
    if order != "sequential-after-handshake" {
        for h in hosts {
            let f = svc.call(request(h));
            let mut f: Pin<Box<dyn Future<Output = bool> + Send>> = Box::pin(async move { f.await.is_ok() });
            // one poll before the handshake; a request that resolves already here keeps its result
            match f.as_mut().poll(&mut Context::from_waker(noop)) {
                Poll::Ready(v) => early.push((h, Box::pin(std::future::ready(v)))),
                Poll::Pending => early.push((h, f)),
            }
        }
        if order == "first-cancelled-before-handshake" && !early.is_empty() {
            early.remove(0);
        }
    }
    let hs = tokio::time::timeout(Duration::from_secs(600), conn.finish_handshake()).await;
    if !matches!(hs, Ok(Ok(()))) {
        return vec![("stack:handshake-failed".into(), format!("{:?}", hs.map(|r| r.map_err(|e| e.to_string()))))];
    }
    let _client_stream = tokio::time::timeout(Duration::from_secs(600), client).await;
    let mut outcomes: Vec<(&'static str, Option<bool>)> = Vec::new();
    // the early requests are concurrent tasks of the connection: drive them together (one of them may hold a place in
    // a lock queue that another needs)
    let (names, futs): (Vec<_>, Vec<_>) = early.into_iter().unzip();
    let done = futures_util::future::join_all(futs.into_iter().map(|f| async move { tokio::time::timeout(Duration::from_secs(600), f).await.ok() })).await;
    for (h, o) in names.into_iter().zip(done) {
        outcomes.push((h, o));
    }
    // and the same hosts again afterwards, one after the other
    for h in hosts {
        let f = svc.call(request(h));
        outcomes.push((h, tokio::time::timeout(Duration::from_secs(600), async move { f.await.is_ok() }).await.ok()));
    }
    if std::env::var("HDV_DEBUG").is_ok() {
        eprintln!("order={order} hosts={hosts:?} outcomes={outcomes:?} seen={:?}", seen.lock().unwrap().iter().map(|(h, i)| (h.clone(), i.as_ref().map(|i| i.validated_server_name))).collect::<Vec<_>>());
    }
    let name = |h: &str| h.rsplit_once(':').filter(|(_, p)| p.chars().all(|c| c.is_ascii_digit())).map(|(a, _)| a.to_string()).unwrap_or(h.to_string()).to_ascii_lowercase();
    for (h, o) in &outcomes {
        let equal = name(h) == "example.com";
        match o {
            None => problems.push((format!("stack:request-never-resolves:{order}"), format!("Host {h}"))),
            Some(true) if !equal => problems.push((format!("stack:forwarded-although-host-differs:{order}"), format!("Host {h} on a connection with server name example.com was forwarded"))),
            Some(false) if equal => problems.push((format!("stack:rejected-although-host-equals-sni:{order}"), format!("Host {h} on a connection with server name example.com was rejected"))),
            _ => {}
        }
    }
    for (h, info) in seen.lock().unwrap().iter() {
        if name(h) != "example.com" {
            problems.push((format!("stack:application-saw-mismatching-host:{order}"), format!("the application received a request for {h} (TLS info {:?})", info.as_ref().map(|i| (i.server_name.clone(), i.validated_server_name)))));
        } else if !info.as_ref().map(|i| i.validated_server_name).unwrap_or(false) {
            problems.push((format!("stack:forwarded-without-validated-flag:{order}"), format!("the application received {h} with TLS info {:?}", info.as_ref().map(|i| (i.server_name.clone(), i.validated_server_name)))));
        }
    }
    problems
}

pub fn run(args: &Args) -> Report {
    let mut rep = Report::new("tlsworld");
    let cases = gen_tls_cases(args.tier_thorough);
    let cases: Vec<TlsCase> = if let Some(path) = &args.replay {
        let v: Value = serde_json::from_str(&std::fs::read_to_string(path).unwrap()).unwrap();
        let want = v["replay"].clone();
        let mut all = gen_tls_cases(true);
        all.retain(|c| c.to_json() == want);
        all
    } else {
        cases
    };
    // silence the default panic message: panics are observed through the JoinError
    let prev = std::panic::take_hook();
    std::panic::set_hook(Box::new(|_| {}));
    if args.wants("C12") || args.wants("C13") {
        let cr = &cases;
        let part = crate::report::parallel(args.threads, cases.len() as u64, "tlsworld", |i, r| {
            let c = &cr[i as usize];
            let o = if c.tcp {
                let rt = tokio::runtime::Builder::new_multi_thread().worker_threads(2).enable_all().build().unwrap();
                let o = rt.block_on(run_tls_case(c));
                rt.shutdown_timeout(Duration::from_millis(50));
                o
            } else {
                let rt = tokio::runtime::Builder::new_current_thread().enable_all().start_paused(true).build().unwrap();
                rt.block_on(run_tls_case(c))
            };
            judge_tls(c, &o, r, args);
        });
        rep.merge(part);
    }
    if args.wants("C12") && args.replay.is_none() {
        let plain_s = ["http", "ws", "ftp", "HTTP", "Ws"];
        let secure_s = ["https", "wss", "HTTPS", "Wss"];
        let mut seqs: Vec<(Vec<&'static str>, &'static str, bool)> = Vec::new();
        for a in plain_s.iter().chain(secure_s.iter()) {
            for b in plain_s.iter().chain(secure_s.iter()) {
                for (host, h2) in [("a.test", false), ("example.com:8443", true), ("127.0.0.1", false)] {
                    seqs.push((vec![*a, *b], host, h2));
                    if args.tier_thorough || (secure(a) != secure(b)) {
                        seqs.push((vec![*a, *b, *a], host, h2));
                    }
                }
            }
        }
        let sr = &seqs;
        let part = crate::report::parallel(args.threads, seqs.len() as u64, "tlsworld", |i, r| {
            let (schemes, host, h2) = &sr[i as usize];
            let rt = tokio::runtime::Builder::new_current_thread().enable_all().start_paused(true).build().unwrap();
            let problems = rt.block_on(run_tls_sequence(schemes, host, *h2));
            let p = r.prop("C12", RULE12);
            let replay = json!({"engine": "tlsworld", "sequence": schemes, "host": host, "h2": h2});
            p.eval(Some(hash_of(&format!("{replay}"))));
            p.count("sequences_through_one_pooled_client", 1);
            for (sig, msg) in problems {
                p.violation(sig, format!("{msg} | {replay}"), replay.clone());
            }
        });
        rep.merge(part);
    }
    if args.wants("C12") && args.replay.is_none() {
        let n = 1300usize;
        let part = crate::report::parallel(args.threads, 2, "tlsworld", |i, r| {
            let first_secure = i == 1;
            let rt = tokio::runtime::Builder::new_current_thread().enable_all().start_paused(true).build().unwrap();
            let problems = rt.block_on(run_tls_key_pressure(first_secure, n));
            let p = r.prop("C12", RULE12);
            let replay = json!({"engine": "tlsworld", "key_pressure": {"first_secure": first_secure, "fillers": n}});
            p.eval(Some(hash_of(&format!("{replay}"))));
            p.count("key_pressure_sequences", 1);
            p.count("key_pressure_origins", n as u64);
            for (sig, msg) in problems {
                p.violation(sig, format!("{msg} | {replay}"), replay.clone());
            }
        });
        rep.merge(part);
    }
    if args.wants("C20") && args.replay.is_none() {
        let mut scs = Vec::new();
        for uri_host in ["example.com", "EXAMPLE.test", "a.test"] {
            for host_header in [None, Some("example.com"), Some("EXAMPLE.COM"), Some("example.com:8443"), Some("a.test"), Some("A.Test:443"), Some("example.test"), Some("other.test"), Some("example.com.evil.test"), Some("127.0.0.1")] {
                for h2 in [false, true] {
                    scs.push(SniCaseE { uri_host, host_header, h2, no_alpn: false });
                    if uri_host != "EXAMPLE.test" {
                        scs.push(SniCaseE { uri_host, host_header, h2, no_alpn: true });
                    }
                }
            }
        }
        // IP-literal URI hosts: the client sends no server name at all, so whatever the request names must be rejected
        for uri_host in ["127.0.0.1", "[::1]"] {
            for host_header in [None, Some("-"), Some("127.0.0.1"), Some("example.com"), Some("localhost"), Some("")] {
                for h2 in [false, true] {
                    if host_header == Some("") && h2 {
                        continue;
                    }
                    scs.push(SniCaseE { uri_host, host_header, h2, no_alpn: false });
                    scs.push(SniCaseE { uri_host, host_header, h2, no_alpn: true });
                }
            }
        }
        let sr = &scs;
        let part = crate::report::parallel(args.threads, scs.len() as u64, "tlsworld", |i, r| {
            let c = &sr[i as usize];
            let rt = tokio::runtime::Builder::new_current_thread().enable_all().start_paused(true).build().unwrap();
            let (res, handled) = rt.block_on(run_sni_case(c));
            let p = r.prop("C20", RULE20E);
            let replay = json!({"engine": "tlsworld", "sni_case": {"uri_host": c.uri_host, "host_header": c.host_header, "h2": c.h2, "no_alpn": c.no_alpn}});
            p.eval(Some(hash_of(c)));
            // what names the host on the wire: HTTP/2 -> :authority = URI host (the Host header is stripped by the
            // client's HTTP/2 checks); HTTP/1.1 -> the caller's Host header, else the one derived from the URI
            let strip = |s: &str| s.rsplit_once(':').filter(|(_, p)| p.chars().all(|ch| ch.is_ascii_digit())).map(|(h, _)| h.to_string()).unwrap_or(s.to_string()).to_ascii_lowercase();
            let named = if c.h2 { c.uri_host.to_string() } else { c.host_header.unwrap_or(c.uri_host).to_string() };
            let sni_sent = c.uri_host.trim_start_matches('[').trim_end_matches(']').parse::<std::net::IpAddr>().is_err();
            let equal = sni_sent && strip(&named) == c.uri_host.to_ascii_lowercase();
            if !sni_sent {
                p.count("e2e_connections_without_server_name", 1);
                if c.no_alpn {
                    p.count("e2e_connections_without_server_name_and_without_alpn", 1);
                }
            }
            let reached = handled.iter().any(|h| h.header_id == Some(55));
            p.count(if equal { "e2e_must_forward" } else { "e2e_must_reject" }, 1);
            if res.as_ref().err().map(|e| e.starts_with("PANIC") || e == "TIMEOUT").unwrap_or(false) {
                p.violation("e2e:request-panicked-or-hung", format!("{res:?} | {replay}"), replay.clone());
            } else if equal && !reached {
                p.violation(format!("e2e:rejected-although-host-equals-sni:{}", if c.h2 { "h2" } else { "h1" }), format!("Host {named:?} equals SNI {} but the handler was not reached: {res:?} | {replay}", c.uri_host), replay.clone());
            } else if !equal && reached {
                p.violation(format!("e2e:forwarded-although-host-differs:{}", if c.h2 { "h2" } else { "h1" }), format!("Host {named:?} {} but the handler was reached | {replay}", if sni_sent { format!("differs from SNI {}", c.uri_host) } else { "on a connection that carried no server name at all".to_string() }), replay.clone());
            } else if equal && reached && handled.iter().any(|h| h.header_id == Some(55) && h.tls_validated != Some(true)) {
                p.violation("e2e:forwarded-without-validated-flag", format!("handler reached without the validated flag | {replay}"), replay.clone());
            }
            if p.samples.len() < 3 {
                p.sample(json!({"case": replay, "handler_reached": reached, "client_result": res.as_ref().map_err(|e| e.chars().take(100).collect::<String>())}));
            }
        });
        rep.merge(part);
    }
    if args.wants("C20") && args.replay.is_none() {
        let mut cs: Vec<(&'static str, Vec<&'static str>)> = Vec::new();
        for order in ["sequential-after-handshake", "all-before-handshake", "first-cancelled-before-handshake"] {
            for hosts in [vec!["evil.example.org", "evil.example.org"], vec!["example.com", "evil.example.org"], vec!["evil.example.org", "Example.COM:8443"], vec!["example.com", "EXAMPLE.com"], vec!["other.test", "example.com", "a.test"]] {
                cs.push((order, hosts));
            }
        }
        let cr = &cs;
        let part = crate::report::parallel(args.threads, cs.len() as u64, "tlsworld", |i, r| {
            let (order, hosts) = &cr[i as usize];
            let rt = tokio::runtime::Builder::new_current_thread().enable_all().start_paused(true).build().unwrap();
            // the stack is driven inside this thread: a panic of the library surfaces here
            let problems = match std::panic::catch_unwind(std::panic::AssertUnwindSafe(|| rt.block_on(run_sni_stack_case(order, hosts)))) {
                Ok(p) => p,
                Err(e) => {
                    let msg = e.downcast_ref::<String>().cloned().or_else(|| e.downcast_ref::<&str>().map(|s| s.to_string())).unwrap_or_default();
                    vec![(format!("stack:panicked:{order}"), format!("the connection's service stack panicked: {msg}"))]
                }
            };
            let p = r.prop("C20", RULE20E);
            let replay = json!({"engine": "tlsworld", "sni_stack_case": {"order": order, "hosts": hosts}});
            p.eval(Some(hash_of(&format!("{replay}"))));
            p.count("stack_cases", 1);
            for (sig, msg) in problems {
                p.violation(sig, format!("{msg} | {replay}"), replay.clone());
            }
        });
        rep.merge(part);
    }
    std::panic::set_hook(prev);
    if let Some(p) = rep.props.get_mut("C12") {
        p.assume("only the ring crypto backend and the fixture CA are exercised; the TLS record layer is trusted (rustls)");
        p.assume("SNI is only checked for DNS-name hosts (IP literals carry no SNI)");
    }
    if let Some(p) = rep.props.get_mut("C13") {
        p.assume("protocol choice is judged on freshly established connections only (a pooled connection of the other protocol legitimately carries the request, rewritten to its version)");
    }
    rep
}

#[allow(dead_code)]
async fn _unused(_t: &Target) -> std::io::Result<RawIo> {
    raw_connect(_t).await
}
