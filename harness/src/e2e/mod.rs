//! End-to-end worlds: the public hyperdriver client stack against hyperdriver servers inside one process.
//!
//! Building blocks shared by the traffic (C01), shutdown (C07), fault (C09), TLS (C12/C13/C20) and panic
//! (C17) engines: id-carrying requests, a checking echo handler, streaming bodies, a routing transport with
//! byte taps and dial log, a counting executor, gates, and the TLS fixtures.

pub mod clientapi;
pub mod deadline;
pub mod faults;
pub mod panics;
pub mod shutdown;
pub mod tlsworld;
pub mod traffic;

use std::collections::{HashMap, VecDeque};
use std::future::Future;
use std::pin::Pin;
use std::sync::atomic::{AtomicU64, AtomicUsize, Ordering};
use std::sync::{Arc, Mutex};
use std::task::{Context, Poll};

use bytes::Bytes;
use http::{Request, Response};
use http_body_util::BodyExt;
use hyperdriver::client::pool::PoolableStream;
use hyperdriver::info::{BraidAddr, ConnectionInfo, HasConnectionInfo};
use hyperdriver::stream::duplex::DuplexClient;
use hyperdriver::stream::Braid;
use hyperdriver::Body;
use tokio::io::{AsyncRead, AsyncWrite, ReadBuf};

pub type BoxError = Box<dyn std::error::Error + Send + Sync + 'static>;

// ---------------------------------------------------------------------------------------------
// payloads
// ---------------------------------------------------------------------------------------------

pub fn pattern(id: u64, len: usize) -> Vec<u8> {
    let mut v = Vec::with_capacity(len);
    let mut x = id.wrapping_mul(0x9e3779b97f4a7c15) ^ 0x5851f42d4c957f2d;
    for i in 0..len {
        if i % 8 == 0 {
            x ^= x << 13;
            x ^= x >> 7;
            x ^= x << 17;
        }
        v.push((x >> ((i % 8) * 8)) as u8);
    }
    v
}

pub fn digest(data: &[u8]) -> u64 {
    // FNV-1a
    let mut h: u64 = 0xcbf29ce484222325;
    for b in data {
        h ^= *b as u64;
        h = h.wrapping_mul(0x100000001b3);
    }
    h ^ (data.len() as u64).wrapping_mul(0x9e3779b97f4a7c15)
}

pub fn resp_status(id: u64) -> u16 {
    [200u16, 201, 202, 404, 500, 203][(id % 6) as usize]
}

pub fn resp_len(id: u64) -> usize {
    match id % 7 {
        0 => 0,
        1 => 1,
        2 => 17,
        3 => 1024,
        4 => 4097,
        5 => 30_000,
        _ => (id % 5000) as usize,
    }
}

// ---------------------------------------------------------------------------------------------
// gates: the harness decides when a handler / body may proceed
// ---------------------------------------------------------------------------------------------

#[derive(Clone, Default)]
pub struct Gates {
    inner: Arc<Mutex<HashMap<String, Arc<tokio::sync::Semaphore>>>>,
    pub reached: Arc<Mutex<Vec<String>>>,
}

impl Gates {
    pub fn gate(&self, name: &str) -> Arc<tokio::sync::Semaphore> {
        self.inner.lock().unwrap().entry(name.to_string()).or_insert_with(|| Arc::new(tokio::sync::Semaphore::new(0))).clone()
    }
    pub fn open(&self, name: &str) {
        self.gate(name).add_permits(1_000_000);
    }
    pub async fn wait(&self, name: &str) {
        self.reached.lock().unwrap().push(name.to_string());
        let g = self.gate(name);
        let _ = g.acquire().await;
    }
    pub fn was_reached(&self, name: &str) -> bool {
        self.reached.lock().unwrap().iter().any(|n| n == name)
    }
}

// ---------------------------------------------------------------------------------------------
// streaming body with scripted chunking
// ---------------------------------------------------------------------------------------------

pub struct ChunkBody {
    chunks: VecDeque<Bytes>,
    /// yield Pending (self-wake) before every n-th chunk
    pending_every: usize,
    produced: usize,
    pended: bool,
    gate: Option<Pin<Box<dyn Future<Output = ()> + Send>>>,
    /// do not announce the length (size_hint unknown)
    pub unsized_body: bool,
}

impl Default for ChunkBody {
    fn default() -> Self {
        ChunkBody { chunks: VecDeque::new(), pending_every: 0, produced: 0, pended: false, gate: None, unsized_body: false }
    }
}

impl std::fmt::Debug for ChunkBody {
    fn fmt(&self, f: &mut std::fmt::Formatter<'_>) -> std::fmt::Result {
        write!(f, "ChunkBody({} chunks)", self.chunks.len())
    }
}

impl ChunkBody {
    pub fn new(data: Vec<u8>, chunk: usize, pending_every: usize) -> Self {
        let mut chunks = VecDeque::new();
        if chunk == 0 || data.is_empty() {
            if !data.is_empty() {
                chunks.push_back(Bytes::from(data));
            }
        } else {
            let b = Bytes::from(data);
            let mut i = 0;
            while i < b.len() {
                let j = (i + chunk).min(b.len());
                chunks.push_back(b.slice(i..j));
                i = j;
            }
        }
        ChunkBody { chunks, pending_every, produced: 0, pended: false, gate: None, unsized_body: false }
    }
    /// the body yields its first chunk, then waits for `gate` before the rest
    pub fn gated_after_first(mut self, gates: &Gates, name: &str) -> Self {
        let g = gates.clone();
        let n = name.to_string();
        self.gate = Some(Box::pin(async move { g.wait(&n).await }));
        self
    }
}

impl http_body::Body for ChunkBody {
    type Data = Bytes;
    type Error = std::convert::Infallible;

    fn poll_frame(mut self: Pin<&mut Self>, cx: &mut Context<'_>) -> Poll<Option<Result<http_body::Frame<Bytes>, Self::Error>>> {
        if self.chunks.is_empty() {
            return Poll::Ready(None);
        }
        if self.produced >= 1 {
            if let Some(g) = self.gate.as_mut() {
                if g.as_mut().poll(cx).is_pending() {
                    return Poll::Pending;
                }
                self.gate = None;
            }
        }
        if self.pending_every > 0 && self.produced % self.pending_every == self.pending_every - 1 && !self.pended {
            self.pended = true;
            cx.waker().wake_by_ref();
            return Poll::Pending;
        }
        self.pended = false;
        self.produced += 1;
        let c = self.chunks.pop_front().unwrap();
        Poll::Ready(Some(Ok(http_body::Frame::data(c))))
    }

    fn is_end_stream(&self) -> bool {
        self.chunks.is_empty()
    }

    fn size_hint(&self) -> http_body::SizeHint {
        if self.unsized_body {
            return http_body::SizeHint::default();
        }
        let n: usize = self.chunks.iter().map(|c| c.len()).sum();
        http_body::SizeHint::with_exact(n as u64)
    }
}

impl From<hyper::body::Incoming> for ChunkBody {
    fn from(_: hyper::body::Incoming) -> Self {
        ChunkBody::default()
    }
}

// ---------------------------------------------------------------------------------------------
// event log
// ---------------------------------------------------------------------------------------------

#[derive(Debug, Clone)]
pub struct Handled {
    pub seq: u64,
    pub server: usize,
    pub conn: u64,
    pub path_id: Option<u64>,
    pub header_id: Option<u64>,
    pub method: String,
    pub path_query: String,
    pub version: String,
    pub body_len: usize,
    pub body_digest: u64,
    pub body_matches_pattern: bool,
    pub host_header: Option<String>,
    pub authority: Option<String>,
    pub headers: Vec<(String, String)>,
    pub started_seq: u64,
    pub finished: bool,
    pub tls_sni: Option<String>,
    pub tls_validated: Option<bool>,
}

#[derive(Debug, Clone)]
pub struct Dial {
    pub seq: u64,
    pub authority: String,
    pub scheme: String,
    pub req_version: String,
    pub ok: bool,
}

#[derive(Default)]
pub struct Log {
    pub seq: AtomicU64,
    pub handled: Mutex<Vec<Handled>>,
    pub dials: Mutex<Vec<Dial>>,
    pub overlaps: Mutex<Vec<String>>,
    pub notes: Mutex<Vec<String>>,
    /// per server connection: requests currently inside the handler (HTTP/1 exclusivity, C02 e2e)
    pub in_handler: Mutex<HashMap<(usize, u64), u32>>,
    pub conn_ids: AtomicU64,
}

impl Log {
    pub fn next(&self) -> u64 {
        self.seq.fetch_add(1, Ordering::SeqCst)
    }
    pub fn note(&self, s: String) {
        self.notes.lock().unwrap().push(s);
    }
}

// ---------------------------------------------------------------------------------------------
// handler
// ---------------------------------------------------------------------------------------------

#[derive(Clone)]
pub struct Handler {
    pub server: usize,
    pub conn: u64,
    pub h1_only_conn: bool,
    pub log: Arc<Log>,
    pub gates: Gates,
}

pub fn parse_id(path: &str) -> Option<u64> {
    // /r/<id>/...
    let mut it = path.split('/');
    it.next()?;
    if it.next()? != "r" {
        return None;
    }
    it.next()?.parse().ok()
}

impl tower::Service<Request<Body>> for Handler {
    type Response = Response<ChunkBody>;
    type Error = BoxError;
    type Future = Pin<Box<dyn Future<Output = Result<Response<ChunkBody>, BoxError>> + Send>>;

    fn poll_ready(&mut self, _cx: &mut Context<'_>) -> Poll<Result<(), Self::Error>> {
        Poll::Ready(Ok(()))
    }

    fn call(&mut self, mut req: Request<Body>) -> Self::Future {
        let me = self.clone();
        Box::pin(async move {
            let started_seq = me.log.next();
            if req.headers().get("upgrade").map(|v| v == "hdv").unwrap_or(false) {
                // HTTP/1 upgrade: answer 101 and echo an id-derived pattern on the upgraded stream
                let id = req.headers().get("x-id").and_then(|v| v.to_str().ok()).and_then(|s| s.parse::<u64>().ok()).unwrap_or(0);
                let on = hyper::upgrade::on(&mut req);
                me.log.handled.lock().unwrap().push(Handled {
                    seq: started_seq, server: me.server, conn: me.conn, path_id: parse_id(req.uri().path()), header_id: Some(id), method: req.method().to_string(),
                    path_query: req.uri().path_and_query().map(|p| p.as_str().to_string()).unwrap_or_default(), version: format!("{:?}", req.version()), body_len: 0,
                    body_digest: digest(&[]), body_matches_pattern: true, host_header: req.headers().get("host").and_then(|v| v.to_str().ok()).map(|s| s.to_string()), authority: req.uri().authority().map(|a| a.to_string()),
                    headers: req.headers().iter().map(|(k, v)| (k.to_string(), v.to_str().unwrap_or("?").to_string())).collect(), started_seq, finished: true, tls_sni: None, tls_validated: None,
                });
                tokio::spawn(async move {
                    use tokio::io::{AsyncReadExt, AsyncWriteExt};
                    if let Ok(up) = on.await {
                        let mut io = hyperdriver::bridge::io::TokioIo::new(up);
                        let mut buf = vec![0u8; 200];
                        if io.read_exact(&mut buf).await.is_ok() {
                            let reply = if buf == pattern(id, 200) { pattern(id ^ 0x55, 200) } else { vec![0u8; 200] };
                            let _ = io.write_all(&reply).await;
                            let _ = io.flush().await;
                        }
                    }
                });
                let mut resp = Response::new(ChunkBody::default());
                *resp.status_mut() = http::StatusCode::SWITCHING_PROTOCOLS;
                resp.headers_mut().insert("x-id", http::HeaderValue::from(id));
                resp.headers_mut().insert("upgrade", http::HeaderValue::from_static("hdv"));
                resp.headers_mut().insert("connection", http::HeaderValue::from_static("upgrade"));
                return Ok(resp);
            }
            let (parts, body) = req.into_parts();
            let hdr = |k: &str| parts.headers.get(k).and_then(|v| v.to_str().ok()).map(|s| s.to_string());
            let path_id = parse_id(parts.uri.path());
            let header_id = hdr("x-id").and_then(|s| s.parse().ok());
            {
                let mut m = me.log.in_handler.lock().unwrap();
                let e = m.entry((me.server, me.conn)).or_insert(0);
                *e += 1;
                if *e > 1 && parts.version < http::Version::HTTP_2 {
                    me.log.overlaps.lock().unwrap().push(format!("server {} conn {}: {} requests inside the handler of one HTTP/1 connection (id {:?})", me.server, me.conn, *e, header_id));
                }
            }
            let tls = parts.extensions.get::<hyperdriver::info::TlsConnectionInfo>().cloned();
            let idx = {
                let mut h = me.log.handled.lock().unwrap();
                h.push(Handled {
                    seq: started_seq,
                    server: me.server,
                    conn: me.conn,
                    path_id,
                    header_id,
                    method: parts.method.to_string(),
                    path_query: parts.uri.path_and_query().map(|p| p.as_str().to_string()).unwrap_or_default(),
                    version: format!("{:?}", parts.version),
                    body_len: 0,
                    body_digest: 0,
                    body_matches_pattern: false,
                    host_header: hdr("host"),
                    authority: parts.uri.authority().map(|a| a.to_string()),
                    headers: parts.headers.iter().map(|(k, v)| (k.to_string(), v.to_str().unwrap_or("?").to_string())).collect(),
                    started_seq,
                    finished: false,
                    tls_sni: tls.as_ref().and_then(|t| t.server_name.clone()),
                    tls_validated: tls.as_ref().map(|t| t.validated_server_name),
                });
                h.len() - 1
            };
            if let Some(g) = hdr("x-gate-before-body") {
                me.gates.wait(&g).await;
            }
            let collected = body.collect().await;
            let data = match collected {
                Ok(c) => c.to_bytes(),
                Err(e) => {
                    let mut m = me.log.in_handler.lock().unwrap();
                    *m.entry((me.server, me.conn)).or_insert(1) -= 1;
                    return Err(format!("request body error: {e}").into());
                }
            };
            let id = header_id.unwrap_or(0);
            {
                let mut h = me.log.handled.lock().unwrap();
                h[idx].body_len = data.len();
                h[idx].body_digest = digest(&data);
                h[idx].body_matches_pattern = data[..] == pattern(id, data.len())[..];
            }
            if let Some(g) = hdr("x-gate-before-response") {
                me.gates.wait(&g).await;
            }
            if let Some(ms) = hdr("x-delay-yields").and_then(|s| s.parse::<u32>().ok()) {
                for _ in 0..ms {
                    tokio::task::yield_now().await;
                }
            }
            if let Some(ms) = hdr("x-sleep-ms").and_then(|s| s.parse::<u64>().ok()) {
                tokio::time::sleep(std::time::Duration::from_millis(ms)).await;
            }
            {
                let mut m = me.log.in_handler.lock().unwrap();
                *m.entry((me.server, me.conn)).or_insert(1) -= 1;
            }
            me.log.handled.lock().unwrap()[idx].finished = true;
            // "/r/<id>/hop<k>" with k > 0 redirects to hop<k-1>
            if let Some(k) = parts.uri.path().rsplit('/').next().and_then(|l| l.strip_prefix("hop")).and_then(|k| k.parse::<u32>().ok()).filter(|k| *k > 0) {
                let mut resp = Response::new(ChunkBody::default());
                *resp.status_mut() = http::StatusCode::FOUND;
                let loc = format!("/r/{id}/hop{}", k - 1);
                resp.headers_mut().insert("location", http::HeaderValue::from_str(&loc).unwrap());
                resp.headers_mut().insert("x-id", http::HeaderValue::from(id));
                return Ok(resp);
            }
            if hdr("x-fault").as_deref() == Some("handler-err") {
                return Err("injected handler error".into());
            }
            let rlen = if parts.method == http::Method::HEAD { 0 } else { resp_len(id) };
            let chunk = hdr("x-resp-chunk").and_then(|s| s.parse().ok()).unwrap_or(0usize);
            let mut rb = ChunkBody::new(pattern(id ^ 0xabcdef, rlen), chunk, if chunk > 0 { 3 } else { 0 });
            if let Some(g) = hdr("x-gate-response-body") {
                rb = rb.gated_after_first(&me.gates, &g);
            }
            let mut resp = Response::new(rb);
            *resp.status_mut() = http::StatusCode::from_u16(resp_status(id)).unwrap();
            let h = resp.headers_mut();
            h.insert("x-id", http::HeaderValue::from(id));
            h.insert("x-srv", http::HeaderValue::from(me.server as u64));
            h.insert("x-conn", http::HeaderValue::from(me.conn));
            h.insert("x-req-digest", http::HeaderValue::from(digest(&data)));
            h.insert("x-req-len", http::HeaderValue::from(data.len() as u64));
            h.insert("x-resp-len", http::HeaderValue::from(rlen as u64));
            for j in 0..(id % 4) {
                h.insert(http::HeaderName::from_bytes(format!("x-h{j}").as_bytes()).unwrap(), http::HeaderValue::from_str(&format!("v{id}-{j}")).unwrap());
            }
            Ok(resp)
        })
    }
}

/// make-service: one `Handler` per accepted connection (so the handler knows its connection id)
#[derive(Clone)]
pub struct MakeHandler {
    pub server: usize,
    pub log: Arc<Log>,
    pub gates: Gates,
}

impl<'a, IO> tower::Service<&'a IO> for MakeHandler {
    type Response = Handler;
    type Error = std::convert::Infallible;
    type Future = std::future::Ready<Result<Handler, Self::Error>>;
    fn poll_ready(&mut self, _cx: &mut Context<'_>) -> Poll<Result<(), Self::Error>> {
        Poll::Ready(Ok(()))
    }
    fn call(&mut self, _io: &'a IO) -> Self::Future {
        let conn = self.log.conn_ids.fetch_add(1, Ordering::SeqCst);
        std::future::ready(Ok(Handler { server: self.server, conn, h1_only_conn: false, log: self.log.clone(), gates: self.gates.clone() }))
    }
}

// ---------------------------------------------------------------------------------------------
// counting executor
// ---------------------------------------------------------------------------------------------

#[derive(Clone, Default)]
pub struct CountExec {
    pub spawned: Arc<AtomicUsize>,
    pub finished: Arc<AtomicUsize>,
}

impl<F> hyper::rt::Executor<F> for CountExec
where
    F: Future + Send + 'static,
    F::Output: Send + 'static,
{
    fn execute(&self, fut: F) {
        self.spawned.fetch_add(1, Ordering::SeqCst);
        let fin = self.finished.clone();
        tokio::spawn(async move {
            let _ = fut.await;
            fin.fetch_add(1, Ordering::SeqCst);
        });
    }
}

// ---------------------------------------------------------------------------------------------
// client side IO with tap + routing transport
// ---------------------------------------------------------------------------------------------

#[derive(Default)]
pub struct TapBuf {
    pub written: Vec<u8>,
    pub read: Vec<u8>,
    pub shutdown: bool,
}

pub struct TapIo {
    inner: Braid,
    tap: Option<Arc<Mutex<TapBuf>>>,
    limit: usize,
}

impl TapIo {
    pub fn new(inner: Braid, tap: Option<Arc<Mutex<TapBuf>>>) -> Self {
        TapIo { inner, tap, limit: 1 << 16 }
    }
}

impl HasConnectionInfo for TapIo {
    type Addr = BraidAddr;
    fn info(&self) -> ConnectionInfo<BraidAddr> {
        self.inner.info()
    }
}

impl PoolableStream for TapIo {
    fn can_share(&self) -> bool {
        false
    }
}

impl AsyncRead for TapIo {
    fn poll_read(mut self: Pin<&mut Self>, cx: &mut Context<'_>, buf: &mut ReadBuf<'_>) -> Poll<std::io::Result<()>> {
        let before = buf.filled().len();
        let r = Pin::new(&mut self.inner).poll_read(cx, buf);
        if let (Poll::Ready(Ok(())), Some(t)) = (&r, &self.tap) {
            let mut t = t.lock().unwrap();
            if t.read.len() < self.limit {
                t.read.extend_from_slice(&buf.filled()[before..]);
            }
        }
        r
    }
}

impl AsyncWrite for TapIo {
    fn poll_write(mut self: Pin<&mut Self>, cx: &mut Context<'_>, data: &[u8]) -> Poll<std::io::Result<usize>> {
        let r = Pin::new(&mut self.inner).poll_write(cx, data);
        if let (Poll::Ready(Ok(n)), Some(t)) = (&r, &self.tap) {
            let mut t = t.lock().unwrap();
            if t.written.len() < self.limit {
                t.written.extend_from_slice(&data[..*n]);
            }
        }
        r
    }
    fn poll_flush(mut self: Pin<&mut Self>, cx: &mut Context<'_>) -> Poll<std::io::Result<()>> {
        Pin::new(&mut self.inner).poll_flush(cx)
    }
    fn poll_shutdown(mut self: Pin<&mut Self>, cx: &mut Context<'_>) -> Poll<std::io::Result<()>> {
        if let Some(t) = &self.tap {
            t.lock().unwrap().shutdown = true;
        }
        Pin::new(&mut self.inner).poll_shutdown(cx)
    }
}

#[derive(Clone)]
pub enum Target {
    Duplex(DuplexClient, usize),
    Tcp(std::net::SocketAddr),
    Unix(std::path::PathBuf),
}

#[derive(Clone, Default)]
pub struct Routes {
    /// lower-case authority (as written in the URI) -> target
    pub table: Arc<Mutex<HashMap<String, Target>>>,
    pub log: Arc<Log>,
    /// taps of every dialed connection, in dial order
    pub taps: Arc<Mutex<Vec<(String, Arc<Mutex<TapBuf>>)>>>,
    pub tap_enabled: bool,
    /// readiness as a reservation (what a concurrency limit around a transport does): `poll_ready` takes one of a fixed
    /// number of slots, `call` hands it to the connect future, which gives it back when the connect is over. An instance
    /// that was made ready and is then dropped gives its slot back as well.
    pub slots: Option<Arc<Slots>>,
    pub reservation: Reservation,
    /// every connect waits at this gate first (so that a test decides when a dial completes)
    pub dial_gate: Option<(Gates, String)>,
}

pub struct Slots {
    state: Mutex<(usize, Vec<std::task::Waker>)>,
}

impl Slots {
    pub fn new(n: usize) -> Arc<Slots> {
        Arc::new(Slots { state: Mutex::new((n, Vec::new())) })
    }
    fn release(&self) {
        let wakers = {
            let mut st = self.state.lock().unwrap();
            st.0 += 1;
            std::mem::take(&mut st.1)
        };
        for w in wakers {
            w.wake();
        }
    }
}

/// a slot held by one transport instance (or by the connect future it was handed to); never cloned with the instance
#[derive(Default)]
pub struct Reservation {
    held: Option<Arc<Slots>>,
}

impl Clone for Reservation {
    fn clone(&self) -> Self {
        Reservation::default()
    }
}

impl Reservation {
    /// true when this instance holds a slot (after taking one if one was free); otherwise registers the waker
    pub fn try_reserve(&mut self, slots: &Arc<Slots>, cx: &mut Context<'_>) -> bool {
        if self.held.is_some() {
            return true;
        }
        let mut st = slots.state.lock().unwrap();
        if st.0 == 0 {
            st.1.push(cx.waker().clone());
            return false;
        }
        st.0 -= 1;
        drop(st);
        self.held = Some(slots.clone());
        true
    }
}

impl Drop for Reservation {
    fn drop(&mut self) {
        if let Some(s) = self.held.take() {
            s.release();
        }
    }
}

impl Routes {
    pub fn add(&self, authority: &str, t: Target) {
        self.table.lock().unwrap().insert(authority.to_ascii_lowercase(), t);
    }
}

#[derive(Debug)]
pub struct RouteError(pub String);
impl std::fmt::Display for RouteError {
    fn fmt(&self, f: &mut std::fmt::Formatter<'_>) -> std::fmt::Result {
        write!(f, "route: {}", self.0)
    }
}
impl std::error::Error for RouteError {}

impl tower::Service<http::request::Parts> for Routes {
    type Response = TapIo;
    type Error = RouteError;
    type Future = Pin<Box<dyn Future<Output = Result<TapIo, RouteError>> + Send>>;

    fn poll_ready(&mut self, cx: &mut Context<'_>) -> Poll<Result<(), Self::Error>> {
        if let Some(slots) = &self.slots {
            if !self.reservation.try_reserve(slots, cx) {
                return Poll::Pending;
            }
        }
        Poll::Ready(Ok(()))
    }

    fn call(&mut self, parts: http::request::Parts) -> Self::Future {
        // the slot travels with the connect
        let reservation = std::mem::take(&mut self.reservation);
        let dial_gate = self.dial_gate.clone();
        let authority = parts.uri.authority().map(|a| a.as_str().to_ascii_lowercase()).unwrap_or_default();
        let scheme = parts.uri.scheme_str().unwrap_or("").to_string();
        // an entry "tls|authority" / "plain|authority" (by the scheme the transport is asked for) wins over "authority"
        let class = if scheme.eq_ignore_ascii_case("https") || scheme.eq_ignore_ascii_case("wss") { "tls" } else { "plain" };
        let target = {
            let t = self.table.lock().unwrap();
            t.get(&format!("{class}|{authority}")).or_else(|| t.get(&authority)).cloned()
        };
        let log = self.log.clone();
        let taps = self.taps.clone();
        let tap_enabled = self.tap_enabled;
        let req_version = format!("{:?}", parts.version);
        Box::pin(async move {
            let _reservation = reservation;
            let seq = log.next();
            if let Some((gates, name)) = dial_gate {
                gates.wait(&name).await;
            }
            let res: Result<Braid, RouteError> = match target {
                None => Err(RouteError(format!("no route for authority {authority:?}"))),
                Some(Target::Duplex(c, buf)) => c.connect(buf).await.map(Braid::from).map_err(|e| RouteError(format!("duplex connect: {e}"))),
                Some(Target::Tcp(addr)) => hyperdriver::stream::TcpStream::connect(addr).await.map(Braid::from).map_err(|e| RouteError(format!("tcp connect: {e}"))),
                Some(Target::Unix(path)) => hyperdriver::stream::UnixStream::connect(path).await.map(Braid::from).map_err(|e| RouteError(format!("unix connect: {e}"))),
            };
            log.dials.lock().unwrap().push(Dial { seq, authority: authority.clone(), scheme, req_version, ok: res.is_ok() });
            let io = res?;
            let tap = if tap_enabled {
                let t = Arc::new(Mutex::new(TapBuf::default()));
                taps.lock().unwrap().push((authority, t.clone()));
                Some(t)
            } else {
                None
            };
            Ok(TapIo::new(io, tap))
        })
    }
}

// ---------------------------------------------------------------------------------------------
// TLS fixtures
// ---------------------------------------------------------------------------------------------

pub fn fixtures_dir() -> std::path::PathBuf {
    if let Ok(d) = std::env::var("HDV_FIXTURES") {
        return d.into();
    }
    std::path::PathBuf::from(concat!(env!("CARGO_MANIFEST_DIR"), "/../fixtures/tls"))
}

fn pem(name: &str) -> (String, Vec<u8>) {
    let raw = std::fs::read(fixtures_dir().join(name)).unwrap_or_else(|e| panic!("fixture {name}: {e}"));
    let (label, der) = pem_rfc7468::decode_vec(&raw).expect("pem");
    (label.to_string(), der)
}

pub fn install_crypto() {
    let _ = rustls::crypto::ring::default_provider().install_default();
}

pub fn server_tls(cert: &str, alpn: &[&str]) -> rustls::ServerConfig {
    install_crypto();
    let (_, c) = pem(&format!("{cert}.pem"));
    let (_, k) = pem(&format!("{cert}.key"));
    let cert = rustls::pki_types::CertificateDer::from(c);
    let key = rustls::pki_types::PrivateKeyDer::Pkcs8(k.into());
    let mut cfg = rustls::ServerConfig::builder().with_no_client_auth().with_single_cert(vec![cert], key).expect("server cert");
    cfg.alpn_protocols = alpn.iter().map(|a| a.as_bytes().to_vec()).collect();
    cfg
}

pub fn client_tls(alpn: &[&str]) -> rustls::ClientConfig {
    install_crypto();
    let mut roots = rustls::RootCertStore::empty();
    let (_, ca) = pem("ca.pem");
    roots.add(rustls::pki_types::CertificateDer::from(ca)).unwrap();
    let mut cfg = rustls::ClientConfig::builder().with_root_certificates(roots).with_no_client_auth();
    cfg.alpn_protocols = alpn.iter().map(|a| a.as_bytes().to_vec()).collect();
    cfg
}

// ---------------------------------------------------------------------------------------------
// servers
// ---------------------------------------------------------------------------------------------

#[derive(Clone, Copy, Debug, PartialEq, Eq, Hash)]
pub enum Proto {
    Auto,
    H1,
    H2,
}

#[derive(Clone, Copy, Debug, PartialEq, Eq, Hash)]
pub enum Net {
    Duplex(usize),
    Tcp,
    Unix,
}

pub struct ServerHandle {
    pub id: usize,
    pub target: Target,
    pub shutdown: Option<tokio::sync::oneshot::Sender<()>>,
    pub join: tokio::task::JoinHandle<Result<(), String>>,
    pub exec: CountExec,
    pub unix_path: Option<std::path::PathBuf>,
}

pub struct ServerSpec {
    pub id: usize,
    pub proto: Proto,
    pub net: Net,
    pub tls: Option<Arc<rustls::ServerConfig>>,
    pub graceful: bool,
    pub sni_validation: bool,
}

static UNIX_SEQ: AtomicU64 = AtomicU64::new(0);

thread_local! {
    /// set by an engine (current_thread runtime) that wants completed graceful servers kept alive
    pub static PARK_COMPLETED_SERVER: std::cell::Cell<bool> = const { std::cell::Cell::new(false) };
    pub static PARKED: std::cell::RefCell<Vec<Box<dyn std::any::Any>>> = const { std::cell::RefCell::new(Vec::new()) };
}

/// Spawn a hyperdriver server on the current runtime.
pub async fn spawn_server(spec: ServerSpec, log: Arc<Log>, gates: Gates) -> ServerHandle {
    use hyperdriver::server::conn::Acceptor;
    let exec = CountExec::default();
    let (acceptor, target, unix_path): (Acceptor, Target, Option<std::path::PathBuf>) = match spec.net {
        Net::Duplex(buf) => {
            let (client, incoming) = hyperdriver::stream::duplex::pair();
            (Acceptor::from(incoming), Target::Duplex(client, buf), None)
        }
        Net::Tcp => {
            let l = tokio::net::TcpListener::bind("127.0.0.1:0").await.expect("bind");
            let addr = l.local_addr().unwrap();
            (Acceptor::from(l), Target::Tcp(addr), None)
        }
        Net::Unix => {
            let p = std::env::temp_dir().join(format!("hdv-{}-{}.sock", std::process::id(), UNIX_SEQ.fetch_add(1, Ordering::SeqCst)));
            let _ = std::fs::remove_file(&p);
            let l = tokio::net::UnixListener::bind(&p).expect("bind unix");
            (Acceptor::from(l), Target::Unix(p.clone()), Some(p))
        }
    };
    let acceptor = match &spec.tls {
        Some(cfg) => acceptor.with_tls(cfg.clone()),
        None => acceptor,
    };
    let make = MakeHandler { server: spec.id, log, gates };
    let (tx, rx) = tokio::sync::oneshot::channel::<()>();
    let graceful = spec.graceful;
    let e = exec.clone();

    macro_rules! run {
        ($server:expr) => {{
            let server = $server;
            if graceful {
                tokio::spawn(async move {
                    // awaited by reference; when the engine asks for it (PARK_COMPLETED_SERVER) the completed future is
                    // kept alive instead of being dropped, like a caller that pins the future and carries on
                    let mut fut = Box::pin(server.with_graceful_shutdown(async move {
                        let _ = rx.await;
                    }));
                    let r = (&mut fut).await.map_err(|e| e.to_string());
                    if PARK_COMPLETED_SERVER.with(|p| p.get()) {
                        PARKED.with(|l| l.borrow_mut().push(Box::new(fut) as Box<dyn std::any::Any>));
                    }
                    r
                })
            } else {
                tokio::spawn(async move {
                    let _keep = rx;
                    server.await.map_err(|e| e.to_string())
                })
            }
        }};
    }

    let join = match (spec.proto, spec.tls.is_some(), spec.sni_validation) {
        // the plain auto-detecting server is built the way users build it: `with_auto_http()` (its own configuration of
        // the protocol builders is part of what is under test)
        (Proto::Auto, false, _) => run!(hyperdriver::Server::builder().with_acceptor(acceptor).with_auto_http().with_make_service(make).with_executor(e.clone())),
        (Proto::H1, false, _) => run!(hyperdriver::Server::builder().with_acceptor(acceptor).with_http1().with_make_service(make).with_executor(e.clone())),
        (Proto::H2, false, _) => run!(hyperdriver::Server::builder().with_acceptor(acceptor).with_protocol(hyperdriver::server::conn::http2::Builder::new(e.clone())).with_make_service(make).with_executor(e.clone())),
        (Proto::Auto, true, false) => run!(hyperdriver::Server::builder().with_acceptor(acceptor).with_protocol(hyperdriver::server::AutoBuilder::new(e.clone())).with_make_service(make).with_tls_connection_info().with_executor(e.clone())),
        (Proto::H1, true, false) => run!(hyperdriver::Server::builder().with_acceptor(acceptor).with_http1().with_make_service(make).with_tls_connection_info().with_executor(e.clone())),
        (Proto::H2, true, false) => run!(hyperdriver::Server::builder().with_acceptor(acceptor).with_protocol(hyperdriver::server::conn::http2::Builder::new(e.clone())).with_make_service(make).with_tls_connection_info().with_executor(e.clone())),
        (p, true, true) => tlsworld::spawn_sni_server(p, acceptor, make, e.clone(), graceful, rx),
    };
    ServerHandle { id: spec.id, target, shutdown: Some(tx), join, exec, unix_path }
}

impl Drop for ServerHandle {
    fn drop(&mut self) {
        if let Some(p) = &self.unix_path {
            let _ = std::fs::remove_file(p);
        }
    }
}

// ---------------------------------------------------------------------------------------------
// client
// ---------------------------------------------------------------------------------------------

pub type ClientSvc = hyperdriver::client::SharedClientService<ChunkBody, Body>;

thread_local! {
    /// how often the protocol service of clients built on this thread answers `Pending` (with a wake-up) before it
    /// reports ready - what a limiting or buffering middleware around the protocol does under load
    pub static PROTOCOL_PENDING_POLLS: std::cell::Cell<usize> = const { std::cell::Cell::new(0) };
}

/// The crate's protocol, not ready at once: every instance answers `Pending` `pending_polls` times first.
pub struct NotReadyAtOnce<P> {
    inner: P,
    pending_polls: usize,
    left: usize,
}

impl<P: Clone> Clone for NotReadyAtOnce<P> {
    fn clone(&self) -> Self {
        NotReadyAtOnce { inner: self.inner.clone(), pending_polls: self.pending_polls, left: self.pending_polls }
    }
}

impl<P: std::fmt::Debug> std::fmt::Debug for NotReadyAtOnce<P> {
    fn fmt(&self, f: &mut std::fmt::Formatter<'_>) -> std::fmt::Result {
        self.inner.fmt(f)
    }
}

impl<P, R> tower::Service<R> for NotReadyAtOnce<P>
where
    P: tower::Service<R>,
{
    type Response = P::Response;
    type Error = P::Error;
    type Future = P::Future;

    fn poll_ready(&mut self, cx: &mut Context<'_>) -> Poll<Result<(), Self::Error>> {
        if self.left > 0 {
            self.left -= 1;
            cx.waker().wake_by_ref();
            return Poll::Pending;
        }
        self.inner.poll_ready(cx)
    }

    fn call(&mut self, req: R) -> Self::Future {
        self.left = self.pending_polls;
        self.inner.call(req)
    }
}

thread_local! {
    /// builder call order of clients built on this thread: TLS configuration before (true) or after (false) the body types
    pub static BUILDER_TLS_BEFORE_BODY: std::cell::Cell<bool> = const { std::cell::Cell::new(false) };
}

pub fn build_client(routes: Routes, pool: Option<hyperdriver::client::PoolConfig>, tls: Option<rustls::ClientConfig>, timeout: Option<std::time::Duration>) -> ClientSvc {
    let pending_polls = PROTOCOL_PENDING_POLLS.with(|c| c.get());
    let b = hyperdriver::Client::builder()
        .with_transport(routes)
        .with_protocol(NotReadyAtOnce { inner: hyperdriver::client::conn::protocol::auto::HttpConnectionBuilder::<ChunkBody>::default(), pending_polls, left: pending_polls })
        .without_redirects()
        .with_optional_timeout(timeout);
    // the builder's methods can be called in any order; the order must not matter
    if BUILDER_TLS_BEFORE_BODY.with(|c| c.get()) {
        let b = match tls {
            Some(t) => b.with_tls(t),
            None => b.without_tls(),
        };
        let b = match pool {
            Some(p) => b.with_pool(p),
            None => b.without_pool(),
        };
        b.with_body::<ChunkBody, Body>().build_service()
    } else {
        let b = b.with_body::<ChunkBody, Body>();
        let b = match pool {
            Some(p) => b.with_pool(p),
            None => b.without_pool(),
        };
        let b = match tls {
            Some(t) => b.with_tls(t),
            None => b.without_tls(),
        };
        b.build_service()
    }
}

#[derive(Clone, Debug)]
pub struct ReqSpec {
    pub id: u64,
    pub origin: String,
    pub method: http::Method,
    pub extra_path: String,
    pub query: Option<String>,
    pub h2: bool,
    pub body_len: usize,
    pub chunk: usize,
    pub pending_every: usize,
    pub headers: Vec<(String, String)>,
    pub resp_chunk: usize,
    /// the body does not announce its length (chunked transfer on HTTP/1)
    pub unsized_body: bool,
    /// the request is versioned HTTP/1.0 by the caller (the connection still speaks HTTP/1.1)
    pub http10: bool,
    /// 0: "/r/<id>/<extra>?<query>"; 1: root path with a query "/?id=<id>&root=1"; 2: empty path with a query "?id=<id>&root=2"
    pub root_path: u8,
}

impl ReqSpec {
    /// what the server must see as the request target
    pub fn path_query(&self) -> String {
        match self.root_path {
            1 => return format!("/?id={}&root=1", self.id),
            2 => return format!("/?id={}&root=2", self.id),
            _ => {}
        }
        let mut s = format!("/r/{}/{}", self.id, self.extra_path);
        if let Some(q) = &self.query {
            s.push('?');
            s.push_str(q);
        }
        s
    }
    pub fn build(&self) -> Request<ChunkBody> {
        // an empty path in front of a query is written without the slash by the caller
        let uri = if self.root_path == 2 { format!("{}?id={}&root=2", self.origin, self.id) } else { format!("{}{}", self.origin, self.path_query()) };
        let mut b = Request::builder().method(self.method.clone()).uri(uri).version(if self.h2 { http::Version::HTTP_2 } else if self.http10 { http::Version::HTTP_10 } else { http::Version::HTTP_11 });
        b = b.header("x-id", self.id).header("x-len", self.body_len as u64);
        if self.resp_chunk > 0 {
            b = b.header("x-resp-chunk", self.resp_chunk as u64);
        }
        for (k, v) in &self.headers {
            b = b.header(k.as_str(), v.as_str());
        }
        let mut body = ChunkBody::new(pattern(self.id, self.body_len), self.chunk, self.pending_every);
        body.unsized_body = self.unsized_body;
        b.body(body).unwrap()
    }
}

#[derive(Debug, Clone)]
pub struct RespCheck {
    pub problems: Vec<(String, String)>,
}

/// compare a fully received response with what the server must have produced for request `spec`
pub fn check_response(spec: &ReqSpec, expect_server: Option<usize>, status: http::StatusCode, headers: &http::HeaderMap, body: &[u8]) -> Vec<(String, String)> {
    let mut p = Vec::new();
    let id = spec.id;
    let hdr = |k: &str| headers.get(k).and_then(|v| v.to_str().ok()).map(|s| s.to_string());
    if hdr("x-id").and_then(|s| s.parse::<u64>().ok()) != Some(id) {
        p.push(("response-for-another-request".to_string(), format!("request {id} got response with x-id {:?}", hdr("x-id"))));
        return p;
    }
    if status.as_u16() != resp_status(id) {
        p.push(("response-status-altered".into(), format!("request {id}: status {status} want {}", resp_status(id))));
    }
    if let Some(s) = expect_server {
        if hdr("x-srv").and_then(|s| s.parse::<usize>().ok()) != Some(s) {
            p.push(("response-from-wrong-origin".into(), format!("request {id} to origin served by server {s} answered by {:?}", hdr("x-srv"))));
        }
    }
    for j in 0..(id % 4) {
        if hdr(&format!("x-h{j}")) != Some(format!("v{id}-{j}")) {
            p.push(("response-header-lost-or-altered".into(), format!("request {id}: x-h{j} = {:?}", hdr(&format!("x-h{j}")))));
        }
    }
    let want_len = if spec.method == http::Method::HEAD { 0 } else { resp_len(id) };
    if body.len() != want_len {
        p.push((if body.len() < want_len { "response-body-truncated" } else { "response-body-too-long" }.into(), format!("request {id}: body {} bytes, want {want_len}", body.len())));
    } else if body != &pattern(id ^ 0xabcdef, want_len)[..] {
        p.push(("response-body-corrupted".into(), format!("request {id}: body bytes differ from what the server produced")));
    }
    // what the server saw of the request
    if hdr("x-req-len").and_then(|s| s.parse::<usize>().ok()) != Some(spec.body_len) {
        p.push(("request-body-length-altered".into(), format!("request {id}: server saw {:?} body bytes, sent {}", hdr("x-req-len"), spec.body_len)));
    } else if hdr("x-req-digest").and_then(|s| s.parse::<u64>().ok()) != Some(digest(&pattern(id, spec.body_len))) {
        p.push(("request-body-corrupted".into(), format!("request {id}: server-side body digest differs")));
    }
    p
}

/// compare the server-side record of request `spec` with what the client sent
pub fn check_handled(spec: &ReqSpec, h: &Handled) -> Vec<(String, String)> {
    let mut p = Vec::new();
    let id = spec.id;
    if (spec.root_path == 0 && h.path_id != Some(id)) || h.header_id != Some(id) {
        p.push(("request-ids-disagree".to_string(), format!("handler saw path id {:?} header id {:?} for request {id}", h.path_id, h.header_id)));
    }
    if h.method != spec.method.as_str() {
        p.push(("request-method-altered".into(), format!("request {id}: {} -> {}", spec.method, h.method)));
    }
    // an empty path in front of a query: HTTP/1 sends "/?q" (origin-form); over HTTP/2 the h2 crate puts the URI's
    // path-and-query into :path as the http crate stores it ("?q") - upstream representation, both are the same target
    let seen_pq = if spec.root_path == 2 && h.path_query.starts_with('?') { format!("/{}", h.path_query) } else { h.path_query.clone() };
    if seen_pq != spec.path_query() {
        p.push(("request-path-query-altered".into(), format!("request {id}: {:?} -> {:?}", spec.path_query(), h.path_query)));
    }
    if h.finished && (h.body_len != spec.body_len || !h.body_matches_pattern) {
        p.push(("request-body-altered".into(), format!("request {id}: server saw {} bytes (pattern ok: {}), sent {}", h.body_len, h.body_matches_pattern, spec.body_len)));
    }
    for (k, v) in &spec.headers {
        if k.starts_with("x-") && !h.headers.iter().any(|(hk, hv)| hk == k && hv == v) {
            p.push(("request-header-lost-or-altered".into(), format!("request {id}: header {k}: {v} not seen by the handler")));
        }
    }
    p
}
