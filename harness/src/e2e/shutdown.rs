//! C07 — graceful shutdown finishes in-flight requests and stops accepting.
//!
//! One hyperdriver server with graceful shutdown on an in-memory duplex acceptor, `current_thread` runtime
//! with a paused clock (exact quiescence). k connections are driven to chosen *positions*, the signal is
//! fired, then the harness lets everything finish and checks what every party observed.

use std::sync::atomic::Ordering;
use std::sync::Arc;
use std::time::Duration;

use bytes::Bytes;
use http_body_util::BodyExt;
use serde_json::{json, Value};
use tokio::io::{AsyncReadExt, AsyncWriteExt};

use super::*;
use crate::report::{hash_of, Args, Report};

const RULE: &str = "one graceful hyperdriver server (http1 / http2 / auto) on duplex, paused clock; k in {0..3} connections each driven to a position (connect requested but not accepted, accepted without bytes, 1..23 sniffed bytes, head partly sent, head complete with body partly sent, handler blocked on a gate, response head sent with gated body, idle keep-alive; HTTP/2 connections with 1-4 streams in mixed stages); signal fired; exhaustive over positions for k<=2, sampled for k=3; non-trivial = k>=1; distinct by (protocol, positions)";

#[derive(Clone, Debug, PartialEq, Eq, Hash)]
pub enum Pos {
    /// connect is requested in the same instant the signal fires
    ConnectAtSignal,
    AcceptedNoBytes,
    /// n bytes of the request (or of the HTTP/2 preface) have been sent
    Sniff(usize, bool),
    HeadPartly,
    BodyPartly,
    HandlerBlocked,
    /// like HandlerBlocked, and a second complete request follows in the same write (HTTP/1 pipelining)
    PipelinedHandlerBlocked,
    ResponseBodyGated,
    IdleKeepAlive,
    /// an HTTP/2 connection with these stream stages
    H2Streams(Vec<StreamStage>),
}

#[derive(Clone, Copy, Debug, PartialEq, Eq, Hash)]
pub enum StreamStage {
    Done,
    HandlerBlocked,
    ResponseBodyGated,
    RequestBodyGated,
}

#[derive(Clone, Debug)]
pub struct Case {
    pub proto: Proto,
    pub conns: Vec<Pos>,
}

impl Case {
    fn to_json(&self) -> Value {
        json!({"engine": "shutdown", "proto": format!("{:?}", self.proto), "conns": self.conns.iter().map(|p| format!("{p:?}")).collect::<Vec<_>>()})
    }
}

const QUEUED_AFTER_SIGNAL: usize = 4;

async fn quiesce() {
    // with a paused clock a sleep returns only when nothing else is runnable
    for _ in 0..3 {
        tokio::time::sleep(Duration::from_millis(5)).await;
    }
}

pub fn h1_request(id: u64, body_len: usize, gate_hdr: Option<(&str, String)>, keep_alive: bool) -> (Vec<u8>, Vec<u8>) {
    let mut head = format!("POST /r/{id}/s?x=1 HTTP/1.1\r\nhost: s0.test\r\nx-id: {id}\r\ncontent-length: {body_len}\r\n");
    if let Some((k, v)) = gate_hdr {
        head.push_str(&format!("{k}: {v}\r\n"));
    }
    if !keep_alive {
        head.push_str("connection: close\r\n");
    }
    head.push_str("\r\n");
    (head.into_bytes(), pattern(id, body_len))
}

/// read whatever arrives until EOF or until nothing more arrives at quiescence
pub async fn read_available(io: &mut hyperdriver::stream::duplex::DuplexStream, into: &mut Vec<u8>) -> bool {
    let mut buf = [0u8; 4096];
    loop {
        match tokio::time::timeout(Duration::from_millis(20), io.read(&mut buf)).await {
            Ok(Ok(0)) => return true,
            Ok(Ok(n)) => into.extend_from_slice(&buf[..n]),
            Ok(Err(_)) => return true,
            Err(_) => return false,
        }
    }
}

pub struct ParsedH1 {
    pub status: u16,
    pub headers: http::HeaderMap,
    pub body: Vec<u8>,
    pub complete: bool,
}

pub fn parse_h1_response(raw: &[u8]) -> Option<ParsedH1> {
    let end = raw.windows(4).position(|w| w == b"\r\n\r\n")?;
    let head = std::str::from_utf8(&raw[..end]).ok()?;
    let mut lines = head.split("\r\n");
    let status: u16 = lines.next()?.split(' ').nth(1)?.parse().ok()?;
    let mut headers = http::HeaderMap::new();
    for l in lines {
        let (k, v) = l.split_once(':')?;
        headers.append(http::HeaderName::from_bytes(k.trim().as_bytes()).ok()?, http::HeaderValue::from_str(v.trim()).ok()?);
    }
    let rest = &raw[end + 4..];
    let (body, complete) = if let Some(cl) = headers.get("content-length").and_then(|v| v.to_str().ok()).and_then(|s| s.parse::<usize>().ok()) {
        (rest[..rest.len().min(cl)].to_vec(), rest.len() >= cl)
    } else if headers.get("transfer-encoding").map(|v| v == "chunked").unwrap_or(false) {
        // de-chunk
        let mut out = Vec::new();
        let mut i = 0;
        let mut done = false;
        loop {
            let Some(nl) = rest[i..].windows(2).position(|w| w == b"\r\n") else { break };
            let Ok(sz) = usize::from_str_radix(std::str::from_utf8(&rest[i..i + nl]).unwrap_or("x").trim(), 16) else { break };
            i += nl + 2;
            if sz == 0 {
                done = true;
                break;
            }
            if rest.len() < i + sz + 2 {
                out.extend_from_slice(&rest[i..rest.len().min(i + sz)]);
                break;
            }
            out.extend_from_slice(&rest[i..i + sz]);
            i += sz + 2;
        }
        (out, done)
    } else {
        (rest.to_vec(), true)
    };
    Some(ParsedH1 { status, headers, body, complete })
}

struct RawConn {
    pos: Pos,
    io: Option<hyperdriver::stream::duplex::DuplexStream>,
    connect_result: Option<Result<(), String>>,
    id: u64,
    body: Vec<u8>,
    sent_body: usize,
    rest_of_head: Vec<u8>,
    received: Vec<u8>,
    eof: bool,
    gate: Option<String>,
    h2: Option<H2Conn>,
}

struct H2Conn {
    send: hyper::client::conn::http2::SendRequest<ChunkBody>,
    driver: tokio::task::JoinHandle<Result<(), String>>,
    streams: Vec<(u64, StreamStage, tokio::task::JoinHandle<Result<(http::StatusCode, http::HeaderMap, Vec<u8>), String>>)>,
}

pub async fn run_case(case: &Case) -> Vec<(String, String)> {
    // the completed serving future is kept alive until the case has been judged (a caller may pin the future, await
    // it by reference and carry on): nothing the property promises may depend on the future being dropped
    PARK_COMPLETED_SERVER.with(|p| p.set(true));
    let problems = run_case_inner(case).await;
    PARK_COMPLETED_SERVER.with(|p| p.set(false));
    PARKED.with(|l| l.borrow_mut().clear());
    problems
}

async fn run_case_inner(case: &Case) -> Vec<(String, String)> {
    let mut problems: Vec<(String, String)> = Vec::new();
    let log = Arc::new(Log::default());
    let gates = Gates::default();
    let mut server = spawn_server(ServerSpec { id: 0, proto: case.proto, net: Net::Duplex(65_536), tls: None, graceful: true, sni_validation: false }, log.clone(), gates.clone()).await;
    let Target::Duplex(dclient, _) = server.target.clone() else { unreachable!() };
    let mut conns: Vec<RawConn> = Vec::new();
    let mut next_id = 100u64;
    let mut late: Vec<tokio::task::JoinHandle<Result<hyperdriver::stream::duplex::DuplexStream, std::io::Error>>> = Vec::new();

    // ---- drive every connection to its position
    for pos in &case.conns {
        let id = next_id;
        next_id += 1;
        let mut rc = RawConn { pos: pos.clone(), io: None, connect_result: None, id, body: vec![], sent_body: 0, rest_of_head: vec![], received: vec![], eof: false, gate: None, h2: None };
        if *pos == Pos::ConnectAtSignal {
            conns.push(rc);
            continue;
        }
        let io = match dclient.connect(65_536).await {
            Ok(io) => io,
            Err(e) => {
                problems.push(("connect-before-signal-failed".into(), format!("{e}")));
                conns.push(rc);
                continue;
            }
        };
        quiesce().await;
        match pos {
            Pos::H2Streams(stages) => {
                let (send, conn) = match hyper::client::conn::http2::Builder::new(hyperdriver::bridge::rt::TokioExecutor::new()).handshake::<_, ChunkBody>(hyperdriver::bridge::io::TokioIo::new(io)).await {
                    Ok(x) => x,
                    Err(e) => {
                        problems.push(("h2-handshake-before-signal-failed".into(), format!("{e}")));
                        conns.push(rc);
                        continue;
                    }
                };
                let driver = tokio::spawn(async move { conn.await.map_err(|e| format!("{e:?}")) });
                let mut streams = Vec::new();
                for (j, st) in stages.iter().enumerate() {
                    let sid = id * 100 + j as u64;
                    let mut b = http::Request::builder().method("POST").uri(format!("http://s0.test/r/{sid}/h2")).header("x-id", sid);
                    let mut body = ChunkBody::new(pattern(sid, 3000), 1000, 0);
                    match st {
                        StreamStage::Done => {}
                        StreamStage::HandlerBlocked => b = b.header("x-gate-before-response", format!("g{sid}")),
                        StreamStage::ResponseBodyGated => b = b.header("x-gate-response-body", format!("g{sid}")).header("x-resp-chunk", "100"),
                        StreamStage::RequestBodyGated => body = body.gated_after_first(&gates, &format!("g{sid}")),
                    }
                    let req = b.body(body).unwrap();
                    let mut s = send.clone();
                    let h = tokio::spawn(async move {
                        let resp = s.send_request(req).await.map_err(|e| format!("send: {e:?}"))?;
                        let (parts, body) = resp.into_parts();
                        let data = body.collect().await.map_err(|e| format!("body: {e:?}"))?.to_bytes();
                        Ok((parts.status, parts.headers, data.to_vec()))
                    });
                    streams.push((sid, *st, h));
                }
                rc.h2 = Some(H2Conn { send, driver, streams });
                quiesce().await;
            }
            _ => {
                let mut io = io;
                match pos {
                    Pos::AcceptedNoBytes => {}
                    Pos::Sniff(n, preface) => {
                        let bytes: Vec<u8> = if *preface { b"PRI * HTTP/2.0\r\n\r\nSM\r\n\r\n".to_vec() } else { h1_request(id, 0, None, true).0 };
                        let n = (*n).min(bytes.len() - 1);
                        let _ = io.write_all(&bytes[..n]).await;
                        rc.rest_of_head = bytes[n..].to_vec();
                    }
                    Pos::HeadPartly => {
                        let (head, body) = h1_request(id, 40, None, true);
                        let n = head.len() / 2;
                        let _ = io.write_all(&head[..n]).await;
                        rc.rest_of_head = head[n..].to_vec();
                        rc.body = body;
                    }
                    Pos::BodyPartly => {
                        let (head, body) = h1_request(id, 5000, None, true);
                        let _ = io.write_all(&head).await;
                        let _ = io.write_all(&body[..2500]).await;
                        rc.sent_body = 2500;
                        rc.body = body;
                    }
                    Pos::HandlerBlocked => {
                        let g = format!("g{id}");
                        let (head, body) = h1_request(id, 300, Some(("x-gate-before-response", g.clone())), true);
                        let _ = io.write_all(&head).await;
                        let _ = io.write_all(&body).await;
                        rc.sent_body = 300;
                        rc.body = body;
                        rc.gate = Some(g);
                    }
                    Pos::PipelinedHandlerBlocked => {
                        let g = format!("g{id}");
                        let (head, body) = h1_request(id, 300, Some(("x-gate-before-response", g.clone())), true);
                        let (head2, body2) = h1_request(id + 5000, 7, None, true);
                        let mut all = head.clone();
                        all.extend_from_slice(&body);
                        all.extend_from_slice(&head2);
                        all.extend_from_slice(&body2);
                        let _ = io.write_all(&all).await;
                        rc.sent_body = 300;
                        rc.body = body;
                        rc.gate = Some(g);
                    }
                    Pos::ResponseBodyGated => {
                        let g = format!("g{id}");
                        let mut head = h1_request(id, 10, Some(("x-gate-response-body", g.clone())), true).0;
                        // ask for a chunked response so that a first chunk is on the wire before the gate
                        let s = String::from_utf8(head.clone()).unwrap().replace("\r\n\r\n", "\r\nx-resp-chunk: 100\r\n\r\n");
                        head = s.into_bytes();
                        let _ = io.write_all(&head).await;
                        let _ = io.write_all(&pattern(id, 10)).await;
                        rc.sent_body = 10;
                        rc.body = pattern(id, 10);
                        rc.gate = Some(g);
                    }
                    Pos::IdleKeepAlive => {
                        let (head, body) = h1_request(id, 20, None, true);
                        let _ = io.write_all(&head).await;
                        let _ = io.write_all(&body).await;
                        quiesce().await;
                        let mut got = Vec::new();
                        read_available(&mut io, &mut got).await;
                        match parse_h1_response(&got) {
                            Some(p) if p.complete => {
                                let spec = ReqSpec { id, origin: String::new(), method: http::Method::POST, extra_path: "s".into(), query: Some("x=1".into()), h2: false, body_len: 20, chunk: 0, pending_every: 0, headers: vec![], resp_chunk: 0, unsized_body: false, http10: false, root_path: 0 };
                                for (s, m) in check_response(&spec, Some(0), http::StatusCode::from_u16(p.status).unwrap(), &p.headers, &p.body) {
                                    problems.push((format!("before-signal:{s}"), m));
                                }
                            }
                            _ => problems.push(("exchange-before-signal-incomplete".into(), format!("request {id}: {} bytes received", got.len()))),
                        }
                        // a second id for the record: this connection is now idle
                        rc.body = vec![];
                    }
                    _ => {}
                }
                rc.io = Some(io);
                quiesce().await;
            }
        }
        conns.push(rc);
    }
    let handled_before_signal = log.handled.lock().unwrap().len();

    // ---- fire the signal (and, in the same instant, the connects that race with it)
    for c in conns.iter_mut().filter(|c| c.pos == Pos::ConnectAtSignal) {
        let d = dclient.clone();
        let _ = c;
        late.push(tokio::spawn(async move { d.connect(1024).await }));
    }
    if let Some(tx) = server.shutdown.take() {
        let _ = tx.send(());
    }
    // connects requested after the signal resolved, queued at the acceptor before the server runs again
    let mut queued = Vec::new();
    for i in 0..QUEUED_AFTER_SIGNAL {
        let d = dclient.clone();
        // the client sends its request the moment it is connected
        let mut f: Pin<Box<dyn Future<Output = Result<hyperdriver::stream::duplex::DuplexStream, std::io::Error>> + Send>> = Box::pin(async move {
            let mut io = d.connect(1024).await?;
            let (head, body) = h1_request(950 + i as u64, 5, None, false);
            let _ = io.write_all(&head).await;
            let _ = io.write_all(&body).await;
            Ok(io)
        });
        let polled = f.as_mut().poll(&mut Context::from_waker(futures_util::task::noop_waker_ref()));
        queued.push(match polled {
            Poll::Ready(r) => tokio::spawn(async move { r }),
            Poll::Pending => tokio::spawn(f),
        });
    }
    quiesce().await;

    // ---- E1: the serving future resolves Ok
    let served = tokio::time::timeout(Duration::from_secs(600), &mut server.join).await;
    match served {
        Err(_) => problems.push(("server-future-not-resolved-after-signal".into(), "the serving future is still pending at quiescence after the shutdown signal".into())),
        Ok(Err(e)) => problems.push(("server-task-panicked".into(), format!("{e}"))),
        Ok(Ok(Err(e))) => problems.push(("server-future-resolved-with-error".into(), e)),
        Ok(Ok(Ok(()))) => {}
    }

    // ---- E2: nothing is accepted or served after the signal
    let after_id = 999u64;
    match tokio::time::timeout(Duration::from_secs(600), dclient.connect(1024)).await {
        Err(_) | Ok(Err(_)) => {}
        Ok(Ok(mut io)) => {
            let (head, body) = h1_request(after_id, 5, None, false);
            let _ = io.write_all(&head).await;
            let _ = io.write_all(&body).await;
            quiesce().await;
            let mut got = Vec::new();
            read_available(&mut io, &mut got).await;
            if !got.is_empty() {
                problems.push(("connection-served-after-signal".into(), format!("a connection opened after the signal received {} response bytes", got.len())));
            }
        }
    }
    for (i, l) in late.into_iter().enumerate() {
        match tokio::time::timeout(Duration::from_secs(600), l).await {
            Ok(Ok(Ok(mut io))) => {
                // accepted in the instant of the signal: it must then be shut down like any open connection
                let (head, body) = h1_request(900 + i as u64, 5, None, false);
                let _ = io.write_all(&head).await;
                let _ = io.write_all(&body).await;
                quiesce().await;
                let mut got = Vec::new();
                let eof = read_available(&mut io, &mut got).await;
                if !eof && got.is_empty() {
                    problems.push(("connection-raced-with-signal-left-hanging".into(), "a connect racing with the signal was accepted but is neither served nor closed at quiescence".into()));
                }
            }
            Ok(Ok(Err(_))) => {}
            Ok(Err(e)) => problems.push(("late-connect-task-panicked".into(), format!("{e}"))),
            // not accepted before the signal was seen; with the completed serving future kept alive the listener
            // still exists, so the connect stays pending: "accepts no further connections" holds
            Err(_) => {}
        }
    }

    let mut served_after = 0;
    let mut accepted_after = 0;
    for (i, q) in queued.into_iter().enumerate() {
        match tokio::time::timeout(Duration::from_secs(600), q).await {
            Ok(Ok(Ok(mut io))) => {
                let _ = i;
                accepted_after += 1;
                quiesce().await;
                let mut got = Vec::new();
                let eof = read_available(&mut io, &mut got).await;
                if !eof && got.is_empty() {
                    problems.push(("connection-queued-after-signal-left-hanging".into(), "a connect issued after the signal was accepted but is neither served nor closed at quiescence".into()));
                }
                if case.proto != Proto::H2 && parse_h1_response(&got).map(|p| p.complete && p.status < 400).unwrap_or(false) {
                    served_after += 1;
                }
            }
            Ok(Ok(Err(_))) => {}
            Ok(Err(e)) => problems.push(("queued-connect-task-panicked".into(), format!("{e}"))),
            // never accepted (the listener lives as long as the completed serving future is kept): fine
            Err(_) => {}
        }
    }
    // one connection slipping in between the signal and the server's next look at it is tolerated; a server that
    // drains its whole accept queue after the signal is not
    if accepted_after >= 2 {
        problems.push(("connections-requested-after-signal-were-accepted".into(), format!("{accepted_after} of {QUEUED_AFTER_SIGNAL} connections requested after the shutdown signal had resolved were accepted ({served_after} of them were answered)")));
    }

    // ---- let the started exchanges finish
    for c in conns.iter_mut() {
        if let Some(io) = c.io.as_mut() {
            if !c.rest_of_head.is_empty() {
                let _ = io.write_all(&c.rest_of_head).await;
            }
            if c.sent_body < c.body.len() {
                let _ = io.write_all(&c.body[c.sent_body..]).await;
            }
        }
        if let Some(g) = &c.gate {
            gates.open(g);
        }
        if let Some(h2) = &c.h2 {
            for (sid, _, _) in &h2.streams {
                gates.open(&format!("g{sid}"));
            }
        }
    }
    quiesce().await;
    for c in conns.iter_mut() {
        if let Some(io) = c.io.as_mut() {
            c.eof = read_available(io, &mut c.received).await;
        }
    }
    quiesce().await;

    if std::env::var("HDV_DEBUG").is_ok() {
        for c in conns.iter() {
            eprintln!("conn id={} pos={:?} received={}B eof={} head={:?}", c.id, c.pos, c.received.len(), c.eof, String::from_utf8_lossy(&c.received[..c.received.len().min(120)]));
        }
        eprintln!("handled={:?}", log.handled.lock().unwrap().iter().map(|h| (h.header_id, h.finished)).collect::<Vec<_>>());
        eprintln!("exec spawned={} finished={}", server.exec.spawned.load(Ordering::SeqCst), server.exec.finished.load(Ordering::SeqCst));
    }
    // ---- judge every connection
    for c in conns.iter_mut() {
        let id = c.id;
        let started = matches!(c.pos, Pos::BodyPartly | Pos::HandlerBlocked | Pos::PipelinedHandlerBlocked | Pos::ResponseBodyGated);
        match &c.pos {
            Pos::ConnectAtSignal => {}
            Pos::H2Streams(_) => {
                let h2 = c.h2.take();
                let Some(h2) = h2 else { continue };
                for (sid, st, h) in h2.streams {
                    match tokio::time::timeout(Duration::from_secs(600), h).await {
                        Err(_) => problems.push((format!("h2-stream-never-completes:{st:?}"), format!("stream {sid} ({st:?}) was in flight at the signal and never completed"))),
                        Ok(Err(e)) => problems.push(("h2-stream-task-panicked".into(), format!("{e}"))),
                        Ok(Ok(Err(e))) => problems.push((format!("h2-in-flight-stream-failed:{st:?}"), format!("stream {sid} ({st:?}) was being handled at the signal but failed: {e}"))),
                        Ok(Ok(Ok((status, headers, body)))) => {
                            let spec = ReqSpec { id: sid, origin: String::new(), method: http::Method::POST, extra_path: "h2".into(), query: None, h2: true, body_len: 3000, chunk: 0, pending_every: 0, headers: vec![], resp_chunk: 0, unsized_body: false, http10: false, root_path: 0 };
                            for (s, m) in check_response(&spec, Some(0), status, &headers, &body) {
                                problems.push((format!("h2-in-flight:{s}"), m));
                            }
                        }
                    }
                }
                // the connection must now be closed by the server (GOAWAY + close)
                match tokio::time::timeout(Duration::from_secs(600), h2.driver).await {
                    Err(_) => problems.push(("h2-connection-not-closed-after-shutdown".into(), format!("the HTTP/2 connection of conn {id} is still open at quiescence after all its streams finished"))),
                    Ok(_) => {}
                }
                let mut send = h2.send;
                let req = http::Request::builder().method("GET").uri("http://s0.test/r/77/late").header("x-id", 77u64).body(ChunkBody::default()).unwrap();
                if let Ok(Ok(_)) = tokio::time::timeout(Duration::from_secs(600), send.send_request(req)).await {
                    problems.push(("h2-new-stream-served-after-shutdown".into(), format!("a stream opened after the signal on conn {id} was served")));
                }
            }
            pos => {
                let parsed = parse_h1_response(&c.received);
                if started {
                    match parsed {
                        Some(p) if p.complete => {
                            let spec = ReqSpec { id, origin: String::new(), method: http::Method::POST, extra_path: "s".into(), query: Some("x=1".into()), h2: false, body_len: c.body.len(), chunk: 0, pending_every: 0, headers: vec![], resp_chunk: 0, unsized_body: false, http10: false, root_path: 0 };
                            for (s, m) in check_response(&spec, Some(0), http::StatusCode::from_u16(p.status).unwrap_or(http::StatusCode::IM_A_TEAPOT), &p.headers, &p.body) {
                                problems.push((format!("in-flight:{s}:{pos:?}"), m));
                            }
                        }
                        Some(p) => problems.push((format!("in-flight-response-truncated:{pos:?}"), format!("request {id} was being handled at the signal; response head arrived but only {} body bytes", p.body.len()))),
                        None => problems.push((format!("in-flight-request-got-no-response:{pos:?}"), format!("request {id} was being handled at the signal and received {} bytes, eof={}", c.received.len(), c.eof))),
                    }
                } else if let Some(p) = &parsed {
                    // not started at the signal: being served completely is fine, a mangled response is not
                    if matches!(pos, Pos::HeadPartly | Pos::Sniff(_, false)) && p.complete && p.status < 400 {
                        let spec = ReqSpec { id, origin: String::new(), method: http::Method::POST, extra_path: "s".into(), query: Some("x=1".into()), h2: false, body_len: c.body.len(), chunk: 0, pending_every: 0, headers: vec![], resp_chunk: 0, unsized_body: false, http10: false, root_path: 0 };
                        for (s, m) in check_response(&spec, Some(0), http::StatusCode::from_u16(p.status).unwrap(), &p.headers, &p.body) {
                            problems.push((format!("late-served:{s}:{pos:?}"), m));
                        }
                    }
                }
                if !c.eof {
                    problems.push((format!("connection-not-closed-after-shutdown:{}", match pos { Pos::Sniff(_, p) => format!("Sniff(preface={p})"), p => format!("{p:?}") }), format!("conn of request {id} ({pos:?}) is still open at quiescence after the signal and after its exchange finished")));
                }
            }
        }
    }

    // ---- E4: every connection task has finished
    quiesce().await;
    let (sp, fi) = (server.exec.spawned.load(Ordering::SeqCst), server.exec.finished.load(Ordering::SeqCst));
    if sp != fi {
        problems.push(("connection-tasks-still-alive-after-shutdown".into(), format!("{sp} tasks spawned on the server executor, {fi} finished at quiescence")));
    }
    // ---- E5: no handler ran for something that arrived after the signal
    for h in log.handled.lock().unwrap().iter().skip(handled_before_signal) {
        if h.header_id == Some(after_id) || h.header_id == Some(77) || h.header_id.map(|i| (900..950).contains(&i) || (960..999).contains(&i)).unwrap_or(false) {
            problems.push(("request-handled-after-signal".into(), format!("handler invoked for request {:?} which was sent after the shutdown signal", h.header_id)));
        }
    }
    drop(Bytes::new());
    problems
}

pub fn positions(proto: Proto) -> Vec<Pos> {
    let mut v = vec![Pos::ConnectAtSignal];
    if proto != Proto::H2 {
        v.extend([Pos::AcceptedNoBytes, Pos::HeadPartly, Pos::BodyPartly, Pos::HandlerBlocked, Pos::PipelinedHandlerBlocked, Pos::ResponseBodyGated, Pos::IdleKeepAlive]);
        for n in [1usize, 3, 10, 17, 23] {
            v.push(Pos::Sniff(n, false));
        }
    }
    if proto == Proto::Auto {
        for n in [1usize, 5, 14, 23] {
            v.push(Pos::Sniff(n, true));
        }
    }
    if proto != Proto::H1 {
        use StreamStage::*;
        v.push(Pos::H2Streams(vec![Done]));
        v.push(Pos::H2Streams(vec![HandlerBlocked]));
        v.push(Pos::H2Streams(vec![ResponseBodyGated]));
        v.push(Pos::H2Streams(vec![RequestBodyGated]));
        v.push(Pos::H2Streams(vec![Done, HandlerBlocked, ResponseBodyGated, RequestBodyGated]));
        v.push(Pos::H2Streams(vec![HandlerBlocked, HandlerBlocked]));
    }
    v
}

// ---------------------------------------------------------------------------------------------
// TLS acceptor: connections whose TLS handshake is unfinished, or finished and idle, at the signal
// ---------------------------------------------------------------------------------------------

#[derive(Clone, Copy, Debug, PartialEq, Eq, Hash)]
pub enum TlsStage {
    /// connected, not a byte sent
    NoBytes,
    /// this many bytes of a ClientHello sent
    HelloPrefix(usize),
    /// handshake complete, no request yet
    HandshakeDoneIdle,
    /// one keep-alive exchange complete (HTTP/1 only)
    ExchangeDoneIdle,
}

pub const TLS_STAGES: [TlsStage; 7] = [TlsStage::NoBytes, TlsStage::HelloPrefix(1), TlsStage::HelloPrefix(5), TlsStage::HelloPrefix(60), TlsStage::HelloPrefix(usize::MAX), TlsStage::HandshakeDoneIdle, TlsStage::ExchangeDoneIdle];

fn client_hello(alpn: &[&str]) -> Vec<u8> {
    let cfg = client_tls(alpn);
    let mut c = rustls::ClientConnection::new(Arc::new(cfg), rustls::pki_types::ServerName::try_from("a.test").unwrap()).unwrap();
    let mut out = Vec::new();
    while c.wants_write() {
        if c.write_tls(&mut out).is_err() {
            break;
        }
    }
    out
}

enum TlsConn {
    Raw(hyperdriver::stream::duplex::DuplexStream),
    Tls(Box<tokio_rustls::client::TlsStream<hyperdriver::stream::duplex::DuplexStream>>),
}

pub async fn run_tls_case(proto: Proto, stages: &[TlsStage]) -> Vec<(String, String)> {
    let mut problems: Vec<(String, String)> = Vec::new();
    let log = Arc::new(Log::default());
    let gates = Gates::default();
    let alpn: &[&str] = match proto {
        Proto::H1 => &["http/1.1"],
        Proto::H2 => &["h2"],
        Proto::Auto => &["http/1.1"],
    };
    PARK_COMPLETED_SERVER.with(|p| p.set(true));
    let mut server = spawn_server(ServerSpec { id: 0, proto, net: Net::Duplex(65_536), tls: Some(Arc::new(server_tls("good", alpn))), graceful: true, sni_validation: false }, log.clone(), gates.clone()).await;
    let Target::Duplex(dclient, _) = server.target.clone() else { unreachable!() };
    let hello = client_hello(alpn);
    let mut conns: Vec<(TlsStage, TlsConn)> = Vec::new();
    for (k, st) in stages.iter().enumerate() {
        let mut io = match dclient.connect(65_536).await {
            Ok(io) => io,
            Err(e) => {
                problems.push(("tls:connect-before-signal-failed".into(), format!("{e}")));
                continue;
            }
        };
        quiesce().await;
        match st {
            TlsStage::NoBytes => conns.push((*st, TlsConn::Raw(io))),
            TlsStage::HelloPrefix(n) => {
                let n = (*n).min(hello.len() - 1);
                let _ = io.write_all(&hello[..n]).await;
                conns.push((*st, TlsConn::Raw(io)));
            }
            TlsStage::HandshakeDoneIdle | TlsStage::ExchangeDoneIdle => {
                let name = rustls::pki_types::ServerName::try_from("a.test").unwrap();
                let mut tls = match tokio_rustls::TlsConnector::from(Arc::new(client_tls(alpn))).connect(name, io).await {
                    Ok(t) => t,
                    Err(e) => {
                        problems.push(("tls:handshake-before-signal-failed".into(), format!("{e}")));
                        continue;
                    }
                };
                if *st == TlsStage::ExchangeDoneIdle && proto != Proto::H2 {
                    let (head, body) = h1_request(700 + k as u64, 20, None, true);
                    let _ = tls.write_all(&head).await;
                    let _ = tls.write_all(&body).await;
                    let _ = tls.flush().await;
                    quiesce().await;
                    let mut got = Vec::new();
                    let mut buf = [0u8; 4096];
                    while let Ok(Ok(n)) = tokio::time::timeout(Duration::from_millis(20), tls.read(&mut buf)).await {
                        if n == 0 {
                            break;
                        }
                        got.extend_from_slice(&buf[..n]);
                    }
                    if !parse_h1_response(&got).map(|p| p.complete).unwrap_or(false) {
                        problems.push(("tls:exchange-before-signal-incomplete".into(), format!("{} bytes received", got.len())));
                    }
                }
                conns.push((*st, TlsConn::Tls(Box::new(tls))));
            }
        }
        quiesce().await;
    }
    if let Some(tx) = server.shutdown.take() {
        let _ = tx.send(());
    }
    quiesce().await;
    match tokio::time::timeout(Duration::from_secs(600), &mut server.join).await {
        Err(_) => problems.push(("tls:server-future-not-resolved-after-signal".into(), "the serving future is still pending at quiescence after the shutdown signal (every connection is idle or still in its TLS handshake)".into())),
        Ok(Err(e)) => problems.push(("tls:server-task-panicked".into(), format!("{e}"))),
        Ok(Ok(Err(e))) => problems.push(("tls:server-future-resolved-with-error".into(), e)),
        Ok(Ok(Ok(()))) => {}
    }
    quiesce().await;
    for (st, c) in conns.iter_mut() {
        let mut buf = [0u8; 4096];
        let mut closed = false;
        loop {
            let r = match c {
                TlsConn::Raw(io) => tokio::time::timeout(Duration::from_millis(20), io.read(&mut buf)).await,
                TlsConn::Tls(io) => tokio::time::timeout(Duration::from_millis(20), io.read(&mut buf)).await,
            };
            match r {
                Ok(Ok(0)) | Ok(Err(_)) => {
                    closed = true;
                    break;
                }
                Ok(Ok(_)) => {}
                Err(_) => break,
            }
        }
        if !closed {
            problems.push((format!("tls:connection-not-closed-after-shutdown:{}", match st { TlsStage::NoBytes | TlsStage::HelloPrefix(_) => "handshake-unfinished", TlsStage::HandshakeDoneIdle => "handshake-done-idle", TlsStage::ExchangeDoneIdle => "keep-alive-idle" }), format!("connection in stage {st:?} is still open at quiescence after the signal")));
        }
    }
    let (sp, fin) = (server.exec.spawned.load(Ordering::SeqCst), server.exec.finished.load(Ordering::SeqCst));
    if sp != fin {
        problems.push(("tls:connection-tasks-left-running".into(), format!("{sp} connection tasks spawned, {fin} finished at quiescence after the signal")));
    }
    PARK_COMPLETED_SERVER.with(|p| p.set(false));
    PARKED.with(|l| l.borrow_mut().clear());
    problems
}

pub fn run(args: &Args) -> Report {
    let mut cases = Vec::new();
    if let Some(path) = &args.replay {
        let v: Value = serde_json::from_str(&std::fs::read_to_string(path).unwrap()).unwrap();
        let want = v["replay"].clone();
        for proto in [Proto::H1, Proto::H2, Proto::Auto] {
            let ps = positions(proto);
            cases.push(Case { proto, conns: vec![] });
            for a in &ps {
                cases.push(Case { proto, conns: vec![a.clone()] });
                for b in &ps {
                    cases.push(Case { proto, conns: vec![a.clone(), b.clone()] });
                    for c in &ps {
                        cases.push(Case { proto, conns: vec![a.clone(), b.clone(), c.clone()] });
                    }
                }
            }
        }
        cases.retain(|c| c.to_json() == want);
    } else {
        use rand::seq::SliceRandom;
        use rand::SeedableRng;
        let mut rng = rand::rngs::StdRng::seed_from_u64(args.seed ^ 0x5d);
        for proto in [Proto::H1, Proto::H2, Proto::Auto] {
            let ps = positions(proto);
            cases.push(Case { proto, conns: vec![] });
            for a in &ps {
                cases.push(Case { proto, conns: vec![a.clone()] });
                for b in &ps {
                    cases.push(Case { proto, conns: vec![a.clone(), b.clone()] });
                }
            }
            let n3 = if args.tier_thorough { 3000 } else { 150 };
            for _ in 0..n3 {
                cases.push(Case { proto, conns: (0..3).map(|_| ps.choose(&mut rng).unwrap().clone()).collect() });
            }
        }
    }
    let cr = &cases;
    let mut rep = crate::report::parallel(args.threads, cases.len() as u64, "shutdown", |i, r| {
        let case = &cr[i as usize];
        let rt = tokio::runtime::Builder::new_current_thread().enable_all().start_paused(true).build().unwrap();
        let problems = rt.block_on(run_case(case));
        let p = r.prop("C07", RULE);
        p.eval(if case.conns.is_empty() { None } else { Some(hash_of(&format!("{}", case.to_json()))) });
        p.count("worlds", 1);
        p.count(&format!("worlds_{:?}", case.proto).to_lowercase(), 1);
        for c in &case.conns {
            let k = match c {
                Pos::Sniff(_, true) => "pos_sniff_preface".to_string(),
                Pos::Sniff(_, false) => "pos_sniff_h1".to_string(),
                Pos::H2Streams(s) => format!("pos_h2_streams_{}", s.len()),
                p => format!("pos_{p:?}").to_lowercase(),
            };
            p.count(&k, 1);
        }
        for (sig, msg) in problems {
            p.violation(sig, format!("{msg} | case {}", case.to_json()), case.to_json());
        }
        if p.samples.len() < 3 && case.conns.len() == 2 {
            p.sample(json!({"case": case.to_json(), "outcome": "server future Ok, in-flight exchanges complete, connections closed, tasks finished"}));
        }
    });
    // TLS acceptor
    let replay_tls: Option<Value> = args.replay.as_ref().map(|p| serde_json::from_str::<Value>(&std::fs::read_to_string(p).unwrap()).unwrap()["replay"].clone());
    let mut tcases: Vec<(Proto, Vec<TlsStage>)> = Vec::new();
    // HTTP/2-only servers are left out: hyper's HTTP/2 server defers a graceful shutdown until the client preface has
    // arrived (upstream behaviour, the same reason the plain sweep has no byte-less positions for them)
    for proto in [Proto::H1, Proto::Auto] {
        for a in TLS_STAGES {
            tcases.push((proto, vec![a]));
            for b in TLS_STAGES {
                tcases.push((proto, vec![a, b]));
            }
        }
    }
    let tjson = |c: &(Proto, Vec<TlsStage>)| json!({"engine": "shutdown", "tls": true, "proto": format!("{:?}", c.0), "stages": c.1.iter().map(|s| format!("{s:?}")).collect::<Vec<_>>()});
    match &replay_tls {
        Some(r) if r["tls"] == true => tcases.retain(|c| tjson(c) == *r),
        Some(_) => tcases.clear(),
        None => {}
    }
    let tr = &tcases;
    let part = crate::report::parallel(args.threads, tcases.len() as u64, "shutdown", |i, r| {
        let c = &tr[i as usize];
        let rt = tokio::runtime::Builder::new_current_thread().enable_all().start_paused(true).build().unwrap();
        let problems = rt.block_on(run_tls_case(c.0, &c.1));
        let p = r.prop("C07", RULE);
        p.eval(Some(hash_of(&format!("{}", tjson(c)))));
        p.count("worlds_tls_acceptor", 1);
        for (sig, msg) in problems {
            p.violation(sig, format!("{msg} | case {}", tjson(c)), tjson(c));
        }
    });
    rep.merge(part);
    if let Some(p) = rep.props.get_mut("C07") {
        p.exhaustive = Some(false);
        p.assume("in-memory duplex acceptor and paused clock: 'at quiescence' is exact; TCP/Unix acceptors share the code path above the Accept trait and are exercised by the fault engine");
        p.assume("a request whose head was not complete at the signal may be served or closed; only corruption is judged for it");
    }
    rep
}
