use crate::report::{Args, Report};

pub fn main() {
    let argv: Vec<String> = std::env::args().collect();
    if argv.len() < 2 {
        eprintln!("usage: hdv <engine> [--prop IDs] [--tier quick|thorough] [--seed N] [--out FILE] [--replay FILE]");
        std::process::exit(2);
    }
    let engine = argv[1].as_str();
    let args = Args::parse(&argv[2..]);
    // debugging aid: HDV_TRACE=<file> writes the library's and hyper's trace events there
    if let Ok(path) = std::env::var("HDV_TRACE") {
        if let Ok(f) = std::fs::File::create(&path) {
            let filter = std::env::var("HDV_TRACE_FILTER").unwrap_or_else(|_| "hyperdriver=trace,hyper=trace".to_string());
            let _ = tracing_subscriber::fmt().with_env_filter(tracing_subscriber::EnvFilter::new(filter)).with_writer(std::sync::Mutex::new(f)).with_ansi(false).with_thread_ids(true).try_init();
        }
    }
    let t0 = std::time::Instant::now();
    let report: Report = match engine {
        "addrsort" => crate::addrsort::run(&args),
        "eyeballs" => crate::eyeballs::run(&args),
        "poollab" => crate::lab::scenarios::run(&args),
        "poolstress" => crate::lab::stress::run(&args),
        "traffic" => crate::e2e::traffic::run(&args),
        "shutdown" => crate::e2e::shutdown::run(&args),
        "faults" => crate::e2e::faults::run(&args),
        "tlsworld" => crate::e2e::tlsworld::run(&args),
        "deadline" => crate::e2e::deadline::run(&args),
        "clientapi" => crate::e2e::clientapi::run(&args),
        "sniff" => crate::sniff::run(&args),
        "panics" => crate::e2e::panics::run(&args),
        "iolab" => crate::iolab::run(&args),
        "layers" if args.replay.is_some() => crate::reqsweep::replay(&args, "layers"),
        "sni" if args.replay.is_some() => crate::reqsweep::replay(&args, "sni"),
        "layers" => crate::reqsweep::run_layers(&args),
        "sni" => crate::reqsweep::run_sni(&args),
        other => {
            eprintln!("unknown engine {other}");
            std::process::exit(2);
        }
    };
    let mut v = report.to_json();
    v["wall_s"] = serde_json::json!(t0.elapsed().as_secs_f64());
    v["seed"] = serde_json::json!(args.seed);
    v["tier"] = serde_json::json!(if args.tier_thorough { "thorough" } else { "quick" });
    let s = serde_json::to_string_pretty(&v).unwrap();
    if args.replay.is_some() {
        let bad = report.props.values().any(|p| !p.violations.is_empty());
        for (id, p) in &report.props {
            for v in &p.violations {
                println!("REPLAY {id} still violates: {} :: {}", v.signature, v.message);
            }
        }
        std::process::exit(if bad { 1 } else { 0 });
    }
    match &args.out {
        Some(p) => std::fs::write(p, s).expect("write out"),
        None => {
            // print a summary only
            for (id, p) in &report.props {
                println!(
                    "{id}: evaluations={} distinct={} violations={:?} inconclusive={} counters={:?}",
                    p.evaluations,
                    p.distinct.len(),
                    p.violation_counts,
                    p.inconclusive.len(),
                    p.counters
                );
                for v in &p.violations {
                    println!("  VIOL {} :: {}", v.signature, v.message);
                }
            }
        }
    }
}
