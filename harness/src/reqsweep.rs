//! Request-grammar sweeps through public layers, without a network.
//!
//! * `layers` (C13, layer part): SetHostHeader -> Http2Checks -> Http1Checks over a recording inner
//!   service, driven with `ExecuteRequest<StubConn, _>`; compared with an independent specification.
//! * `sni` (C20, layer part): `ValidateSNI` around a recording inner service; compared with an
//!   independent predicate.

use std::future::Future;
use std::pin::Pin;
use std::sync::{Arc, Mutex};
use std::task::{Context, Poll};

use http::{HeaderMap, HeaderValue, Method, Request, Response, Uri, Version};
use hyperdriver::client::conn::Connection;
use hyperdriver::info::TlsConnectionInfo;
use hyperdriver::service::{ExecuteRequest, Http1ChecksLayer, Http2ChecksLayer, SetHostHeaderLayer};
use serde_json::{json, Value};
use tower::{Layer, Service};

use crate::report::{hash_of, Args, PropReport, Report};

// ---------------------------------------------------------------------------------------------
// C13 layer part
// ---------------------------------------------------------------------------------------------

const RULE13: &str = "layer part: every combination of scheme x host form x port x path x query x method x request version x preset headers x connection version from the grammar in harness/src/reqsweep.rs, pushed through the public SetHostHeader/Http2Checks/Http1Checks layers over a stub connection; the http::Request reaching the inner service is compared with an independent specification; distinct by full input; non-trivial = every case (each exercises at least one rewriting rule)";

#[derive(Debug)]
pub struct StubConn {
    version: Version,
}

#[derive(Debug)]
pub struct StubError;
impl std::fmt::Display for StubError {
    fn fmt(&self, f: &mut std::fmt::Formatter<'_>) -> std::fmt::Result {
        write!(f, "stub")
    }
}
impl std::error::Error for StubError {}

impl Connection<()> for StubConn {
    type ResBody = hyperdriver::Body;
    type Error = StubError;
    type Future = std::future::Ready<Result<Response<hyperdriver::Body>, StubError>>;
    fn send_request(&mut self, _request: Request<()>) -> Self::Future {
        std::future::ready(Err(StubError))
    }
    fn poll_ready(&mut self, _cx: &mut Context<'_>) -> Poll<Result<(), Self::Error>> {
        Poll::Ready(Ok(()))
    }
    fn version(&self) -> Version {
        self.version
    }
}

#[derive(Clone, Default)]
struct Recorder {
    seen: Arc<Mutex<Option<Request<()>>>>,
}

impl Service<ExecuteRequest<StubConn, ()>> for Recorder {
    type Response = Response<hyperdriver::Body>;
    type Error = hyperdriver::client::Error;
    type Future = std::future::Ready<Result<Self::Response, Self::Error>>;
    fn poll_ready(&mut self, _cx: &mut Context<'_>) -> Poll<Result<(), Self::Error>> {
        Poll::Ready(Ok(()))
    }
    fn call(&mut self, req: ExecuteRequest<StubConn, ()>) -> Self::Future {
        let (_conn, request) = req.into_parts();
        *self.seen.lock().unwrap() = Some(request);
        std::future::ready(Ok(Response::new(hyperdriver::Body::empty())))
    }
}

fn poll_now<F: Future>(f: F) -> Option<F::Output> {
    let mut f = std::pin::pin!(f);
    let waker = futures_util::task::noop_waker();
    let mut cx = Context::from_waker(&waker);
    match Pin::new(&mut f).poll(&mut cx) {
        Poll::Ready(v) => Some(v),
        Poll::Pending => None,
    }
}

#[derive(Clone, Debug, Hash)]
pub struct LayerCase {
    pub scheme: &'static str,
    pub host: &'static str,
    pub port: Option<u16>,
    pub path: &'static str,
    pub query: Option<&'static str>,
    pub method: &'static str,
    pub version: u8, // 9, 10, 11, 2, 3
    pub preset: &'static str,
    pub conn_h2: bool,
    /// user information in front of the host (never part of Host or of the request target)
    pub userinfo: Option<&'static str>,
}

impl LayerCase {
    fn uri(&self) -> String {
        let mut s = match self.userinfo {
            Some(u) => format!("{}://{}@{}", self.scheme, u, self.host),
            None => format!("{}://{}", self.scheme, self.host),
        };
        if let Some(p) = self.port {
            s.push_str(&format!(":{p}"));
        }
        s.push_str(self.path);
        if let Some(q) = self.query {
            s.push('?');
            s.push_str(q);
        }
        s
    }
    fn to_json(&self) -> Value {
        json!({"uri": self.uri(), "method": self.method, "version": self.version, "preset": self.preset, "conn": if self.conn_h2 {"h2"} else {"h1"}})
    }
}

fn version_of(v: u8) -> Version {
    match v {
        9 => Version::HTTP_09,
        10 => Version::HTTP_10,
        11 => Version::HTTP_11,
        2 => Version::HTTP_2,
        _ => Version::HTTP_3,
    }
}

pub const SCHEMES: [&str; 8] = ["http", "https", "ws", "wss", "ftp", "HTTP", "WSS", "Ws"];
pub const HOSTS: [&str; 7] = ["example.com", "EXAMPLE.com", "a", "127.0.0.1", "[::1]", "[2001:db8::1]", "xn--nxasmq6b.example"];
pub const PORTS: [Option<u16>; 6] = [None, Some(80), Some(443), Some(8080), Some(1), Some(65535)];
pub const PATHS: [&str; 7] = ["", "/", "/a/b/c", "/%7Euser/a%20b", "/*", "//double//slash/", "/a;b=c/.."];
pub const QUERIES: [Option<&str>; 4] = [None, Some(""), Some("x=1&y=%20z"), Some("q=aaaaaaaaaaaaaaaaaaaaaaaaaaaaaaaaaaaaaaaaaaaaaaaaaaaaaaaaaaaaaaaaaaaaaaaaaaaaaaaaaaaaaaaaaaaaaaaaaaaaaaaaaaaaaaaaaaaaaaaaaaaaaa&&=&?/")];
pub const METHODS: [&str; 7] = ["GET", "POST", "HEAD", "OPTIONS", "CONNECT", "PURGE", "DELETE"];
pub const VERSIONS: [u8; 5] = [9, 10, 11, 2, 3];
pub const PRESETS: [&str; 6] = ["none", "host", "host2", "connspec", "host+connspec", "other"];

fn preset_headers(kind: &str) -> HeaderMap {
    let mut h = HeaderMap::new();
    h.insert("x-keep", HeaderValue::from_static("1"));
    match kind {
        "host" => {
            h.insert(http::header::HOST, HeaderValue::from_static("caller.example:99"));
        }
        "host2" => {
            h.append(http::header::HOST, HeaderValue::from_static("first.example"));
            h.append(http::header::HOST, HeaderValue::from_static("second.example"));
        }
        "connspec" | "host+connspec" => {
            h.insert(http::header::CONNECTION, HeaderValue::from_static("keep-alive, upgrade"));
            h.insert("proxy-connection", HeaderValue::from_static("keep-alive"));
            h.insert("keep-alive", HeaderValue::from_static("timeout=5"));
            h.insert(http::header::TRANSFER_ENCODING, HeaderValue::from_static("chunked"));
            h.insert(http::header::UPGRADE, HeaderValue::from_static("websocket"));
            h.insert(http::header::TE, HeaderValue::from_static("trailers"));
            if kind == "host+connspec" {
                h.insert(http::header::HOST, HeaderValue::from_static("caller.example"));
            }
        }
        "other" => {
            h.insert("x-other", HeaderValue::from_static("v"));
            h.append("x-multi", HeaderValue::from_static("a"));
            h.append("x-multi", HeaderValue::from_static("b"));
            h.insert(http::header::CONTENT_LENGTH, HeaderValue::from_static("0"));
        }
        _ => {}
    }
    h
}

fn headers_json(h: &HeaderMap) -> Vec<String> {
    h.iter().map(|(k, v)| format!("{}: {}", k, v.to_str().unwrap_or("?"))).collect()
}

/// Independent specification: what must reach the inner service.
/// Returns Err(kind) if the stack must reject, otherwise a list of (check name, ok) evaluated on `out`.
fn layer_spec(c: &LayerCase, input: &Request<()>, out: Option<&Request<()>>, rejected_connect: bool) -> Vec<(String, String)> {
    let mut bad: Vec<(String, String)> = Vec::new();
    let mut fail = |k: &str, d: String| bad.push((k.to_string(), d));
    let scheme_lc = c.scheme.to_ascii_lowercase();
    if c.conn_h2 && c.method == "CONNECT" {
        if !rejected_connect {
            fail("h2-connect-not-rejected", "CONNECT on an HTTP/2 connection must be rejected with InvalidMethod".into());
        }
        return bad;
    }
    if rejected_connect {
        fail("spurious-reject", "request rejected with InvalidMethod although not CONNECT-on-h2".into());
        return bad;
    }
    let Some(out) = out else {
        fail("not-forwarded", "request did not reach the inner service".into());
        return bad;
    };
    // untouched parts
    if out.method() != input.method() {
        fail("method-changed", format!("{} -> {}", input.method(), out.method()));
    }
    for (k, v) in input.headers() {
        let removable_on_h2 = ["connection", "proxy-connection", "keep-alive", "transfer-encoding", "upgrade", "host"].contains(&k.as_str());
        if c.conn_h2 && removable_on_h2 {
            continue;
        }
        if !out.headers().get_all(k).iter().any(|x| x == v) {
            fail("header-lost", format!("{k}: {v:?} missing"));
        }
    }
    for (k, _v) in out.headers() {
        if k != http::header::HOST && !input.headers().contains_key(k) {
            fail("header-invented", format!("{k} added"));
        }
        if out.headers().get_all(k).iter().count() > input.headers().get_all(k).iter().count().max(if k == http::header::HOST { 1 } else { 0 }) {
            fail("header-duplicated", format!("{k}"));
        }
    }
    if c.conn_h2 {
        if out.version() != Version::HTTP_2 {
            fail("h2-version", format!("version {:?} on an HTTP/2 connection", out.version()));
        }
        for k in ["connection", "proxy-connection", "keep-alive", "transfer-encoding", "upgrade", "host"] {
            if out.headers().contains_key(k) {
                fail(&format!("h2-header-present:{k}"), format!("{k} present on an HTTP/2 connection"));
            }
        }
        // the URI keeps scheme and authority (they become :scheme / :authority) and path/query
        if out.uri() != input.uri() {
            fail("h2-uri-changed", format!("{} -> {}", input.uri(), out.uri()));
        }
        return bad;
    }
    // ---- HTTP/1 connection
    if c.method == "CONNECT" {
        let want = match c.port {
            Some(p) => format!("{}:{}", c.host, p),
            None => c.host.to_string(),
        };
        let got = out.uri();
        if got.scheme().is_some() || got.path_and_query().is_some() || got.authority().map(|a| a.as_str().to_string()) != Some(want.clone()) {
            fail("h1-connect-not-authority-form", format!("target {got:?} (want authority-form {want})"));
        }
    } else {
        let got = out.uri();
        if got.scheme().is_some() || got.authority().is_some() {
            fail("h1-target-not-origin-form", format!("target {got}"));
        }
        // what hyper writes on the request line is the Display form of the Uri
        let want_path = if c.path.is_empty() { "/" } else { c.path };
        let got_pq = got.to_string();
        let want_pq = match c.query {
            Some(q) => format!("{want_path}?{q}"),
            None => want_path.to_string(),
        };
        if got_pq != want_pq {
            fail("h1-path-query-altered", format!("target {got_pq:?}, want {want_pq:?}"));
        }
    }
    // Host
    let hosts: Vec<&HeaderValue> = out.headers().get_all(http::header::HOST).iter().collect();
    let preset_hosts: Vec<&HeaderValue> = input.headers().get_all(http::header::HOST).iter().collect();
    if !preset_hosts.is_empty() {
        if hosts != preset_hosts {
            fail("h1-caller-host-overridden", format!("caller Host {preset_hosts:?} became {hosts:?}"));
        }
    } else if hosts.len() != 1 {
        fail("h1-host-missing", format!("Host headers: {hosts:?}"));
    } else {
        let got = hosts[0].to_str().unwrap_or("?").to_string();
        let secure = scheme_lc == "https" || scheme_lc == "wss";
        let known = ["http", "https", "ws", "wss"].contains(&scheme_lc.as_str());
        let default_port = if secure { 443 } else { 80 };
        let with_port = |p: u16| format!("{}:{}", c.host, p);
        let ok = match c.port {
            None => got == c.host,
            Some(p) if known => {
                if p == default_port {
                    got == c.host
                } else {
                    got == with_port(p)
                }
            }
            // unknown scheme: the default port is not defined; host must be right and an explicit
            // non-80/443 port must be kept
            Some(p) => {
                if p == 80 || p == 443 {
                    got == c.host || got == with_port(p)
                } else {
                    got == with_port(p)
                }
            }
        };
        if !ok {
            let kind = if !got.starts_with(c.host) {
                "h1-host-wrong-name"
            } else if got == c.host {
                "h1-host-port-dropped"
            } else if c.port.is_some() && Some(got.as_str()) == c.port.map(with_port).as_deref() {
                "h1-host-default-port-kept"
            } else {
                "h1-host-wrong-port"
            };
            fail(&format!("{kind}:scheme={}", if c.scheme == scheme_lc { c.scheme.to_string() } else { format!("{scheme_lc}-mixed-case") }), format!("Host {got:?} for {}", c.uri()));
        }
    }
    bad
}

pub fn run_layer_case(c: &LayerCase, p: &mut PropReport) {
    let uri: Uri = match c.uri().parse() {
        Ok(u) => u,
        Err(_) => {
            p.count("unparseable_uri_skipped", 1);
            return;
        }
    };
    let mut input = Request::new(());
    *input.uri_mut() = uri;
    *input.method_mut() = Method::from_bytes(c.method.as_bytes()).unwrap();
    *input.version_mut() = version_of(c.version);
    *input.headers_mut() = preset_headers(c.preset);
    let mut sent = Request::new(());
    *sent.uri_mut() = input.uri().clone();
    *sent.method_mut() = input.method().clone();
    *sent.version_mut() = input.version();
    *sent.headers_mut() = input.headers().clone();

    let rec = Recorder::default();
    let mut svc = SetHostHeaderLayer::new().layer(Http2ChecksLayer::new().layer(Http1ChecksLayer::new().layer(rec.clone())));
    let conn = StubConn { version: if c.conn_h2 { Version::HTTP_2 } else { Version::HTTP_11 } };
    let result = std::panic::catch_unwind(std::panic::AssertUnwindSafe(|| {
        let fut = Service::call(&mut svc, ExecuteRequest::new(conn, sent));
        poll_now(fut)
    }));
    p.eval(Some(hash_of(c)));
    p.count(if c.conn_h2 { "cases_h2_conn" } else { "cases_h1_conn" }, 1);
    let replay = json!({"engine": "layers", "case": c.to_json()});
    let result = match result {
        Err(_) => {
            // a panic here is C17's business; C13 cannot judge the case
            p.count("panicked_cases_left_to_C17", 1);
            return;
        }
        Ok(None) => {
            p.violation("layer-stack-pending", format!("layer stack returned Pending for {}", c.to_json()), replay);
            return;
        }
        Ok(Some(r)) => r,
    };
    // "CONNECT is rejected with an error" on an HTTP/2 connection: which error is the library's choice
    let rejected_connect = result.is_err() && c.conn_h2 && input.method() == Method::CONNECT;
    if result.is_err() && !rejected_connect {
        p.violation("layer-stack-unexpected-error", format!("{:?} for {}", result.err(), c.to_json()), replay);
        return;
    }
    let out = rec.seen.lock().unwrap().take();
    let bad = layer_spec(c, &input, out.as_ref(), rejected_connect);
    if out.is_some() {
        p.count("forwarded", 1);
    }
    if rejected_connect {
        p.count("rejected_connect_on_h2", 1);
    }
    for (kind, detail) in bad {
        p.violation(
            format!("layers:{kind}"),
            format!("{detail}; case {} ; forwarded uri={:?} version={:?} headers={:?}", c.to_json(), out.as_ref().map(|o| o.uri().to_string()), out.as_ref().map(|o| o.version()), out.as_ref().map(|o| headers_json(o.headers()))),
            replay.clone(),
        );
    }
    if p.samples.len() < 5 && c.port == Some(8080) && c.path == "/a/b/c" && c.query.is_some() && c.preset == "connspec" {
        p.sample(json!({"case": c.to_json(), "forwarded_uri": out.as_ref().map(|o| o.uri().to_string()), "forwarded_version": out.as_ref().map(|o| format!("{:?}", o.version())), "forwarded_headers": out.as_ref().map(|o| headers_json(o.headers()))}));
    }
}

pub fn all_layer_cases() -> Vec<LayerCase> {
    let mut v = Vec::new();
    for scheme in SCHEMES {
        for host in HOSTS {
            for port in PORTS {
                for path in PATHS {
                    for query in QUERIES {
                        for method in METHODS {
                            for version in VERSIONS {
                                for preset in PRESETS {
                                    for conn_h2 in [false, true] {
                                        v.push(LayerCase { scheme, host, port, path, query, method, version, preset, conn_h2, userinfo: None });
                                    }
                                }
                            }
                        }
                    }
                }
            }
        }
    }
    // user information in the authority (CONNECT is left out: whether authority-form keeps it is not judged)
    for userinfo in ["user", "user:secret", "a.test:443"] {
        for scheme in ["http", "https", "wss"] {
            for host in ["example.com", "[::1]", "127.0.0.1"] {
                for port in PORTS {
                    for path in ["", "/", "/a/b/c"] {
                        for query in [None, Some("x=1&y=%20z")] {
                            for method in ["GET", "POST", "OPTIONS"] {
                                for version in [10u8, 11, 2] {
                                    for preset in ["none", "host", "connspec"] {
                                        for conn_h2 in [false, true] {
                                            v.push(LayerCase { scheme, host, port, path, query, method, version, preset, conn_h2, userinfo: Some(userinfo) });
                                        }
                                    }
                                }
                            }
                        }
                    }
                }
            }
        }
    }
    v
}

pub fn run_layers(args: &Args) -> Report {
    // the whole grammar takes a few seconds on 16 cores: both tiers enumerate it completely
    let cases = all_layer_cases();
    let chunk = 4096u64;
    let jobs = (cases.len() as u64 + chunk - 1) / chunk;
    let mut r = crate::report::parallel(args.threads, jobs, "layers", |j, rep| {
        let lo = (j * chunk) as usize;
        let hi = (lo + chunk as usize).min(cases.len());
        let p = rep.prop("C13", RULE13);
        for c in &cases[lo..hi] {
            run_layer_case(c, p);
        }
    });
    let p = r.prop("C13", RULE13);
    p.exhaustive = Some(true);
    p.assume("layer part judges absolute URIs only (scheme + authority present); relative targets cannot come out of the pooled client");
    p.assume("for schemes other than http/https/ws/wss no default port is defined: Host must name the host, and a port other than 80/443 must be kept");
    r
}

// ---------------------------------------------------------------------------------------------
// C20 layer part
// ---------------------------------------------------------------------------------------------

const RULE20: &str = "layer part: every combination of HTTP version {1.0,1.1,2} x Host header x URI authority x TLS server name (+ no TLS info) from the grammar in harness/src/reqsweep.rs through the public ValidateSNI layer over a recording inner service; forwarded/rejected and the validated flag vs an independent predicate (case-insensitive host compare, port ignored); distinct by full input; non-trivial = a host is named or SNI is present";

#[derive(Clone, Default)]
struct SniRecorder {
    seen: Arc<Mutex<Option<Option<TlsConnectionInfo>>>>,
}

impl Service<Request<()>> for SniRecorder {
    type Response = Response<()>;
    type Error = StubError;
    type Future = std::future::Ready<Result<Response<()>, StubError>>;
    fn poll_ready(&mut self, _cx: &mut Context<'_>) -> Poll<Result<(), Self::Error>> {
        Poll::Ready(Ok(()))
    }
    fn call(&mut self, req: Request<()>) -> Self::Future {
        *self.seen.lock().unwrap() = Some(req.extensions().get::<TlsConnectionInfo>().cloned());
        std::future::ready(Ok(Response::new(())))
    }
}

pub const SNI_HOSTS: [Option<&str>; 19] = [
    None,
    Some("example.com"),
    Some("EXAMPLE.COM"),
    Some("eXaMpLe.CoM"),
    Some("example.com:443"),
    Some("example.com:8443"),
    Some("Example.com:8443"),
    Some("other.test"),
    Some("example.com.evil.test"),
    Some("sub.example.com"),
    Some("127.0.0.1"),
    Some("127.0.0.1:8443"),
    Some("[::1]"),
    Some("[::1]:8443"),
    Some("[2001:db8::1]"),
    Some("[2001:db8::2]"),
    Some("[2001:DB8::1]:8443"),
    Some("127.0.0.2"),
    Some("[::2]:1"),
];
pub const SNI_NAMES: [Option<&str>; 12] = [
    None,
    Some("example.com"),
    Some("EXAMPLE.com"),
    Some("other.test"),
    Some("example.co"),
    Some("xample.com"),
    Some("sub.example.com"),
    Some("com"),
    Some("127.0.0.1"),
    Some("[::1]"),
    Some("[2001:db8::1]"),
    Some("[::2]"),
];

#[derive(Clone, Debug, Hash)]
pub struct SniCase {
    pub version: u8,
    pub host_header: Option<&'static str>,
    pub authority: Option<&'static str>,
    pub sni: Option<&'static str>,
    pub tls: bool,
}

impl SniCase {
    fn to_json(&self) -> Value {
        json!({"version": self.version, "host_header": self.host_header, "uri_authority": self.authority, "sni": self.sni, "tls": self.tls})
    }
}

fn host_only(v: &str) -> String {
    // strip an optional :port (keep brackets of an IPv6 literal), lower-case
    let h = if let Some(end) = v.rfind(']') {
        &v[..=end]
    } else if let Some(i) = v.rfind(':') {
        &v[..i]
    } else {
        v
    };
    h.to_ascii_lowercase()
}

pub fn run_sni_case(c: &SniCase, p: &mut PropReport) {
    let mut req = Request::new(());
    *req.version_mut() = version_of(c.version);
    let uri = match c.authority {
        Some(a) => format!("https://{a}/p?q=1"),
        None => "/p?q=1".to_string(),
    };
    *req.uri_mut() = uri.parse().unwrap();
    if let Some(h) = c.host_header {
        req.headers_mut().insert(http::header::HOST, HeaderValue::from_static(h));
    }
    if c.tls {
        req.extensions_mut().insert(TlsConnectionInfo { server_name: c.sni.map(|s| s.to_string()), validated_server_name: false, alpn: None });
    }
    let rec = SniRecorder::default();
    let mut svc = hyperdriver::server::conn::tls::sni::ValidateSNI.layer(rec.clone());
    let res = poll_now(Service::call(&mut svc, req));
    let named: Option<&str> = if c.version == 2 { c.authority.or(c.host_header) } else { c.host_header };
    let nontrivial = named.is_some() || c.sni.is_some();
    p.eval(if nontrivial { Some(hash_of(c)) } else { None });
    let replay = json!({"engine": "sni", "case": c.to_json()});
    let Some(res) = res else {
        p.violation("sni:pending", format!("{}", c.to_json()), replay);
        return;
    };
    let forwarded = rec.seen.lock().unwrap().take();
    let is_forwarded = forwarded.is_some();
    if is_forwarded != res.is_ok() {
        p.violation("sni:result-vs-forwarding-mismatch", format!("forwarded={is_forwarded} result ok={} {}", res.is_ok(), c.to_json()), replay);
        return;
    }
    let how = if c.version == 2 {
        match (c.authority, c.host_header) {
            (Some(_), _) => "h2-authority",
            (None, Some(_)) => "h2-host-header-fallback",
            _ => "h2-no-host",
        }
    } else if c.host_header.is_some() {
        "h1-host-header"
    } else {
        "h1-no-host"
    };
    if !c.tls {
        p.count("non_tls_requests", 1);
        if !is_forwarded {
            p.violation("sni:non-tls-request-rejected", format!("{}", c.to_json()), replay);
        }
        return;
    }
    match (named, c.sni) {
        (Some(h), Some(s)) => {
            let equal = host_only(h) == host_only(s);
            let case_differs = equal && host_only_raw(h) != host_only_raw(s);
            let with_port = h.rfind(':').map(|i| !h[i..].contains(']')).unwrap_or(false);
            let class = format!("{how}{}{}", if case_differs { ":case-differs" } else { "" }, if with_port { ":with-port" } else { "" });
            if equal {
                p.count("judged_must_forward", 1);
                if !is_forwarded {
                    p.violation(format!("sni:rejected-although-host-equals-sni:{class}"), format!("{} -> {:?}", c.to_json(), res.as_ref().err().map(|e| e.to_string())), replay);
                } else if !forwarded.as_ref().unwrap().as_ref().map(|t| t.validated_server_name).unwrap_or(false) {
                    p.violation(format!("sni:forwarded-without-validated-flag:{class}"), format!("{}", c.to_json()), replay);
                }
            } else {
                p.count("judged_must_reject", 1);
                if is_forwarded {
                    p.violation(format!("sni:forwarded-although-host-differs:{class}"), format!("{} forwarded (validated flag {:?})", c.to_json(), forwarded.as_ref().unwrap().as_ref().map(|t| t.validated_server_name)), replay);
                }
            }
        }
        (Some(_), None) => {
            p.count("judged_must_reject", 1);
            if is_forwarded {
                p.violation(format!("sni:forwarded-without-server-name:{how}"), format!("{}", c.to_json()), replay);
            }
        }
        (None, _) => {
            // the request names no host: the property does not say; not judged
            p.count("unjudged_no_host_named", 1);
            if is_forwarded && forwarded.as_ref().unwrap().as_ref().map(|t| t.validated_server_name).unwrap_or(false) {
                p.violation("sni:validated-flag-without-host", format!("{}", c.to_json()), replay);
            }
        }
    }
    if p.samples.len() < 5 && c.version == 2 && c.sni == Some("example.com") && c.authority.is_some() {
        p.sample(json!({"case": c.to_json(), "forwarded": is_forwarded, "validated_flag": forwarded.as_ref().and_then(|t| t.as_ref().map(|t| t.validated_server_name)), "error": res.as_ref().err().map(|e| e.to_string())}));
    }
}

fn host_only_raw(v: &str) -> String {
    if let Some(end) = v.rfind(']') {
        v[..=end].to_string()
    } else if let Some(i) = v.rfind(':') {
        v[..i].to_string()
    } else {
        v.to_string()
    }
}

pub fn run_sni(args: &Args) -> Report {
    let mut rep = Report::new("sni");
    let p = rep.prop("C20", RULE20);
    for version in [10u8, 11, 2] {
        for host_header in SNI_HOSTS {
            for authority in SNI_HOSTS {
                for sni in SNI_NAMES {
                    for tls in [true, false] {
                        if !tls && sni.is_some() {
                            continue;
                        }
                        run_sni_case(&SniCase { version, host_header, authority, sni, tls }, p);
                    }
                }
            }
        }
    }
    p.exhaustive = Some(true);
    p.assume("a request that names no host is not judged (the property only speaks about requests that name a host)");
    let _ = args;
    rep
}

pub fn replay(args: &Args, engine: &str) -> Report {
    let path = args.replay.as_ref().unwrap();
    let v: Value = serde_json::from_str(&std::fs::read_to_string(path).unwrap()).unwrap();
    let case = &v["replay"]["case"];
    let mut rep = Report::new(engine);
    println!("replaying {case}");
    if engine == "layers" {
        let want = case.clone();
        let p = rep.prop("C13", RULE13);
        for c in all_layer_cases() {
            if c.to_json() == want {
                run_layer_case(&c, p);
            }
        }
    } else {
        let want = case.clone();
        let p = rep.prop("C20", RULE20);
        for version in [10u8, 11, 2] {
            for host_header in SNI_HOSTS {
                for authority in SNI_HOSTS {
                    for sni in SNI_NAMES {
                        for tls in [true, false] {
                            let c = SniCase { version, host_header, authority, sni, tls };
                            if c.to_json() == want {
                                run_sni_case(&c, p);
                            }
                        }
                    }
                }
            }
        }
    }
    rep
}
