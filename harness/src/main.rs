fn main() {
    hdv::cli::main();
}
