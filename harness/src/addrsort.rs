//! C16 — address preference sorting.
//!
//! Part A (hook): exhaustive enumeration of address lists over a small alphabet,
//! `verif_hooks::sort_preferred` / `set_port` against an independent spec.
//! Part B (public path): `TcpTransport` with a scripted resolver on loopback;
//! the accepted connection must arrive at the k-th address of the spec order.

use std::net::{IpAddr, Ipv4Addr, Ipv6Addr, SocketAddr};
use std::time::Duration;

use hyperdriver::client::conn::dns::{IpVersion, SocketAddrs};
use hyperdriver::client::conn::transport::tcp::{TcpTransport, TcpTransportConfig};
use hyperdriver::verif_hooks;
use rand::rngs::StdRng;
use rand::seq::SliceRandom;
use rand::{Rng, SeedableRng};
use serde_json::json;

use crate::report::{hash_of, Args, Report};

const RULE: &str = "hook part: every list of length <= L over {3 IPv4, 3 IPv6} (duplicates allowed) x 3 preference settings, output compared with spec [first preferred-family, first other-family, rest in order]; non-trivial = list contains both families or >= 2 addresses, distinct by (list, preference). public part: TcpTransport + scripted resolver on loopback, listeners only on spec positions >= k, accepted peer must be spec[k]";

fn spec(input: &[SocketAddr], prefer: Option<IpVersion>) -> Vec<SocketAddr> {
    let pref_v4 = matches!(prefer, Some(IpVersion::V4));
    let is_pref = |a: &SocketAddr| a.is_ipv4() == pref_v4;
    let first_pref = input.iter().position(|a| is_pref(a));
    let first_other = input.iter().position(|a| !is_pref(a));
    let mut out = Vec::with_capacity(input.len());
    if let Some(i) = first_pref {
        out.push(input[i]);
    }
    if let Some(i) = first_other {
        out.push(input[i]);
    }
    for (i, a) in input.iter().enumerate() {
        if Some(i) != first_pref && Some(i) != first_other {
            out.push(*a);
        }
    }
    out
}

fn alphabet() -> Vec<SocketAddr> {
    vec![
        SocketAddr::new(IpAddr::V4(Ipv4Addr::new(10, 0, 0, 1)), 1),
        SocketAddr::new(IpAddr::V4(Ipv4Addr::new(10, 0, 0, 2)), 2),
        SocketAddr::new(IpAddr::V4(Ipv4Addr::new(10, 0, 0, 3)), 3),
        SocketAddr::new(IpAddr::V6(Ipv6Addr::new(0xfd00, 0, 0, 0, 0, 0, 0, 1)), 4),
        SocketAddr::new(IpAddr::V6(Ipv6Addr::new(0xfd00, 0, 0, 0, 0, 0, 0, 2)), 5),
        SocketAddr::new(IpAddr::V6(Ipv6Addr::new(0xfd00, 0, 0, 0, 0, 0, 0, 3)), 6),
    ]
}

fn pref_name(p: Option<IpVersion>) -> &'static str {
    match p {
        None => "none",
        Some(IpVersion::V4) => "v4",
        Some(IpVersion::V6) => "v6",
    }
}

fn fmt_list(l: &[SocketAddr]) -> Vec<String> {
    l.iter().map(|a| a.to_string()).collect()
}

fn hook_part(args: &Args, report: &mut Report) {
    let max_len = if args.tier_thorough { 8 } else { 6 };
    let alpha = alphabet();
    let prefs = [None, Some(IpVersion::V4), Some(IpVersion::V6)];
    // Each worker handles the lists whose first two elements encode the worker index.
    let shards = 36u64;
    let r = crate::report::parallel(args.threads, shards + 1, "addrsort", |shard, rep| {
        let p = rep.prop("C16", RULE);
        let mut list: Vec<SocketAddr> = Vec::new();
        let mut idx: Vec<usize> = Vec::new();
        // enumerate all index vectors of length 0..=max_len in this shard
        let mut visit = |list: &Vec<SocketAddr>, p: &mut crate::report::PropReport| {
            for prefer in prefs {
                let out = verif_hooks::sort_preferred(list.clone(), prefer);
                let want = spec(list, prefer);
                let both = list.iter().any(|a| a.is_ipv4()) && list.iter().any(|a| a.is_ipv6());
                let nontrivial = list.len() >= 2 || both;
                p.eval(if nontrivial { Some(hash_of(&(list, pref_name(prefer)))) } else { None });
                if both {
                    p.count("lists_with_both_families", 1);
                }
                if out != want {
                    let mut so = out.clone();
                    let mut si = list.clone();
                    so.sort();
                    si.sort();
                    let kind = if so != si {
                        "not-a-permutation"
                    } else if out.first() != want.first() {
                        "wrong-first"
                    } else if out.get(1) != want.get(1) {
                        "wrong-second"
                    } else {
                        "rest-reordered"
                    };
                    p.violation(
                        format!("sort_preferred:{kind}:prefer={}", pref_name(prefer)),
                        format!("input {:?} prefer {} -> {:?}, spec {:?}", fmt_list(list), pref_name(prefer), fmt_list(&out), fmt_list(&want)),
                        json!({"engine":"addrsort","input": fmt_list(list), "prefer": pref_name(prefer)}),
                    );
                }
                if p.samples.len() < 3 && list.len() == 4 && both {
                    p.sample(json!({"input": fmt_list(list), "prefer": pref_name(prefer), "output": fmt_list(&out)}));
                }
            }
        };
        if shard == shards {
            // lengths 0 and 1
            visit(&vec![], p);
            for a in &alpha {
                visit(&vec![*a], p);
            }
            return;
        }
        let a0 = (shard / 6) as usize;
        let a1 = (shard % 6) as usize;
        list.push(alpha[a0]);
        list.push(alpha[a1]);
        visit(&list, p);
        // DFS over the remaining positions
        loop {
            if list.len() < max_len {
                idx.push(0);
                list.push(alpha[0]);
                visit(&list, p);
                continue;
            }
            // backtrack
            loop {
                match idx.pop() {
                    None => return,
                    Some(i) => {
                        list.pop();
                        if i + 1 < alpha.len() {
                            idx.push(i + 1);
                            list.push(alpha[i + 1]);
                            visit(&list, p);
                            break;
                        }
                    }
                }
            }
        }
    });
    report.merge(r);

    // set_port: every port on a few lists (thorough) / a grid (quick)
    let p = report.prop("C16", RULE);
    let lists = [
        vec![alpha[0], alpha[3], alpha[1]],
        vec![alpha[4]],
        vec![alpha[2], alpha[2], alpha[5], alpha[3]],
    ];
    let ports: Vec<u16> = if args.tier_thorough {
        (0..=u16::MAX).collect()
    } else {
        let mut v: Vec<u16> = vec![0, 1, 22, 80, 443, 1023, 1024, 8080, 32767, 32768, 65534, 65535];
        let mut rng = StdRng::seed_from_u64(args.seed);
        v.extend((0..500).map(|_| rng.gen::<u16>()));
        v
    };
    for l in &lists {
        for &port in &ports {
            let out = verif_hooks::set_port(l.clone(), port);
            p.eval(Some(hash_of(&("port", l, port))));
            p.count("set_port_cases", 1);
            let ok = out.len() == l.len()
                && out.iter().zip(l).all(|(o, i)| o.ip() == i.ip() && o.port() == port);
            if !ok {
                p.violation(
                    "set_port:wrong-output",
                    format!("set_port({:?}, {port}) -> {:?}", fmt_list(l), fmt_list(&out)),
                    json!({"engine":"addrsort","input": fmt_list(l), "port": port}),
                );
            }
        }
    }
    p.exhaustive = Some(true);
    p.count("max_list_len", 0);
    p.max("max_list_len", max_len as u64);
    // SocketAddrs public collection round trip (FromIterator / IntoIterator keep order)
    let l: Vec<SocketAddr> = alpha.clone();
    let rt: Vec<SocketAddr> = l.iter().copied().collect::<SocketAddrs>().into_iter().collect();
    if rt != l {
        p.violation("socketaddrs:roundtrip", "FromIterator/IntoIterator reorder", json!({}));
    }
}

#[derive(Clone)]
struct ScriptResolver {
    addrs: Vec<SocketAddr>,
}

impl tower::Service<Box<str>> for ScriptResolver {
    type Response = SocketAddrs;
    type Error = std::io::Error;
    type Future = std::future::Ready<Result<SocketAddrs, std::io::Error>>;
    fn poll_ready(&mut self, _: &mut std::task::Context<'_>) -> std::task::Poll<Result<(), Self::Error>> {
        std::task::Poll::Ready(Ok(()))
    }
    fn call(&mut self, _req: Box<str>) -> Self::Future {
        std::future::ready(Ok(self.addrs.iter().copied().collect()))
    }
}

fn v6_loopback_works() -> bool {
    std::net::TcpListener::bind("[::1]:0").is_ok()
}

/// Bind listeners for `addrs` (distinct ips) on one common port. Returns (port, listeners).
fn bind_all(ips: &[IpAddr]) -> Option<(u16, Vec<(IpAddr, std::net::TcpListener)>)> {
    for _ in 0..50 {
        let probe = std::net::TcpListener::bind("127.0.0.1:0").ok()?;
        let port = probe.local_addr().ok()?.port();
        drop(probe);
        let mut ls = Vec::new();
        let mut ok = true;
        for ip in ips {
            // a v4-mapped v6 destination is served by a v4 listener
            let bind_ip = match ip {
                IpAddr::V6(v6) => match v6.to_ipv4_mapped() {
                    Some(v4) => IpAddr::V4(v4),
                    None => *ip,
                },
                _ => *ip,
            };
            match std::net::TcpListener::bind(SocketAddr::new(bind_ip, port)) {
                Ok(l) => {
                    l.set_nonblocking(true).ok();
                    ls.push((*ip, l))
                }
                Err(_) => {
                    ok = false;
                    break;
                }
            }
        }
        if ok {
            return Some((port, ls));
        }
    }
    None
}

fn public_part(args: &Args, report: &mut Report) {
    let trials = if args.tier_thorough { 400 } else { 40 };
    let have_v6 = v6_loopback_works();
    let rt = tokio::runtime::Builder::new_multi_thread()
        .worker_threads(2)
        .enable_all()
        .build()
        .unwrap();
    let mut rng = StdRng::seed_from_u64(args.seed ^ 0xadd5);
    let p = report.prop("C16", RULE);
    p.assume("public path uses loopback only: 127.0.0.x as IPv4, ::1 and ::ffff:127.0.0.x (v4-mapped, served by a v4 listener) as IPv6; with an IPv6 local bind address only ::1 is usable");
    for t in 0..trials {
        let pref = [None, Some(IpVersion::V4), Some(IpVersion::V6)][t % 3];
        let mut v4: Vec<IpAddr> = (1..=4u8).map(|x| IpAddr::V4(Ipv4Addr::new(127, 0, 0, x))).collect();
        let mut v6: Vec<IpAddr> = Vec::new();
        if have_v6 {
            v6.push(IpAddr::V6(Ipv6Addr::LOCALHOST));
        }
        if pref != Some(IpVersion::V6) {
            for x in 5..=7u8 {
                v6.push(IpAddr::V6(Ipv4Addr::new(127, 0, 0, x).to_ipv6_mapped()));
            }
        }
        v4.shuffle(&mut rng);
        v6.shuffle(&mut rng);
        let n4 = rng.gen_range(0..=v4.len().min(3));
        let n6 = rng.gen_range(0..=v6.len().min(3));
        let mut ips: Vec<IpAddr> = v4[..n4].iter().chain(v6[..n6].iter()).copied().collect();
        if ips.is_empty() {
            ips.push(v4[0]);
        }
        ips.shuffle(&mut rng);
        let resolver_port = rng.gen_range(1..1000u16); // must be overwritten by the URI port
        let input: Vec<SocketAddr> = ips.iter().map(|ip| SocketAddr::new(*ip, resolver_port)).collect();
        let Some((port, listeners)) = bind_all(&ips) else {
            p.count("public_bind_failures", 1);
            continue;
        };
        let want: Vec<SocketAddr> = spec(&input, pref)
            .into_iter()
            .map(|a| SocketAddr::new(a.ip(), port))
            .collect();
        let k = rng.gen_range(0..want.len());
        // keep only listeners for positions >= k
        let keep: Vec<IpAddr> = want[k..].iter().map(|a| a.ip()).collect();
        let listeners: Vec<_> = listeners.into_iter().filter(|(ip, _)| keep.contains(ip)).collect();

        let mut config = TcpTransportConfig::default();
        config.happy_eyeballs_timeout = Some(Duration::from_secs(20));
        config.happy_eyeballs_concurrency = Some(1);
        config.connect_timeout = Some(Duration::from_secs(5));
        match pref {
            None => {}
            Some(IpVersion::V4) => config.local_address_ipv4 = Some(Ipv4Addr::new(127, 0, 0, 1)),
            Some(IpVersion::V6) => {
                config.local_address_ipv6 = Some(Ipv6Addr::LOCALHOST);
                if t % 2 == 0 {
                    config.local_address_ipv4 = Some(Ipv4Addr::new(127, 0, 0, 1));
                }
            }
        }
        let transport: TcpTransport<ScriptResolver> = TcpTransport::builder()
            .with_config(config)
            .with_resolver(ScriptResolver { addrs: input.clone() })
            .build();
        let uri: http::Uri = format!("http://verif.test:{port}/").parse().unwrap();
        let res = rt.block_on(async {
            use tower::ServiceExt;
            let parts = http::Request::get(uri).body(()).unwrap().into_parts().0;
            tokio::time::timeout(Duration::from_secs(30), transport.oneshot(parts)).await
        });
        p.eval(Some(hash_of(&("pub", &input, pref_name(pref), k))));
        p.count("public_trials", 1);
        let case = json!({"engine":"addrsort","public":true,"resolver": fmt_list(&input), "prefer": pref_name(pref), "k": k, "spec": fmt_list(&want)});
        match res {
            Err(_) => {
                p.inconclusive.push(format!("public trial watchdog fired: {case}"));
            }
            Ok(Err(e)) => {
                p.violation(
                    format!("public:connect-failed:prefer={}", pref_name(pref)),
                    format!("no connection although positions >= {k} listen: {e} case {case}"),
                    case,
                );
            }
            Ok(Ok(stream)) => {
                let peer = stream.peer_addr().ok();
                if p.samples.len() < 6 {
                    p.sample(json!({"public_trial": case, "peer": peer.map(|a| a.to_string())}));
                }
                let canon = |a: SocketAddr| match a.ip() {
                    IpAddr::V6(v6) => SocketAddr::new(v6.to_ipv4_mapped().map(IpAddr::V4).unwrap_or(IpAddr::V6(v6)), a.port()),
                    _ => a,
                };
                // the stream reports a canonicalised peer (v4-mapped -> v4); the 127.0.0.x host numbers of
                // plain and mapped addresses are disjoint so the comparison stays unambiguous
                if peer.map(canon) != Some(canon(want[k])) {
                    let sig = if peer.map(|a| a.port()) != Some(port) { "public:wrong-port" } else { "public:wrong-attempt-order" };
                    p.violation(
                        format!("{sig}:prefer={}", pref_name(pref)),
                        format!("connected to {peer:?}, spec position {k} is {} ; case {case}", want[k]),
                        case,
                    );
                }
            }
        }
        drop(listeners);
    }
    // happy eyeballs switched off (no overall timeout configured): every candidate still carries the URI's port
    for t in 0..(if args.tier_thorough { 30 } else { 6 }) {
        let ip = IpAddr::V4(Ipv4Addr::new(127, 0, 0, 2 + (t % 3) as u8));
        let Some((port, listeners)) = bind_all(&[ip]) else {
            p.count("public_bind_failures", 1);
            continue;
        };
        let resolver_port = [0u16, 1, 977][t % 3];
        let input = vec![SocketAddr::new(ip, resolver_port)];
        let mut config = TcpTransportConfig::default();
        config.happy_eyeballs_timeout = None;
        config.happy_eyeballs_concurrency = [None, Some(1)][t % 2];
        config.connect_timeout = Some(Duration::from_secs(5));
        let transport: TcpTransport<ScriptResolver> = TcpTransport::builder().with_config(config).with_resolver(ScriptResolver { addrs: input.clone() }).build();
        let uri: http::Uri = format!("http://verif.test:{port}/").parse().unwrap();
        let res = rt.block_on(async {
            use tower::ServiceExt;
            let parts = http::Request::get(uri).body(()).unwrap().into_parts().0;
            tokio::time::timeout(Duration::from_secs(30), transport.oneshot(parts)).await
        });
        p.eval(Some(hash_of(&("pub-no-he", &input, t % 2))));
        p.count("public_trials_happy_eyeballs_off", 1);
        let case = json!({"engine":"addrsort","public":true,"happy_eyeballs_timeout": null, "resolver": fmt_list(&input), "uri_port": port});
        match res {
            Err(_) => p.inconclusive.push(format!("public trial watchdog fired: {case}")),
            Ok(Err(e)) => p.violation("public:port-of-the-uri-not-applied:happy-eyeballs-off", format!("resolver answered {:?} , the URI says port {port}, a listener waits there: {e} ; case {case}", fmt_list(&input)), case),
            Ok(Ok(stream)) => {
                if stream.peer_addr().ok().map(|a| a.port()) != Some(port) {
                    p.violation("public:wrong-port:happy-eyeballs-off", format!("connected to {:?}, URI port {port} ; case {case}", stream.peer_addr().ok()), case);
                }
            }
        }
        drop(listeners);
    }
}

pub fn run(args: &Args) -> Report {
    let mut report = Report::new("addrsort");
    if let Some(path) = &args.replay {
        let v: serde_json::Value = serde_json::from_str(&std::fs::read_to_string(path).unwrap()).unwrap();
        let r = &v["replay"];
        let input: Vec<SocketAddr> = r["input"].as_array().map(|a| a.iter().map(|s| s.as_str().unwrap().parse().unwrap()).collect()).unwrap_or_default();
        let prefer = match r["prefer"].as_str() {
            Some("v4") => Some(IpVersion::V4),
            Some("v6") => Some(IpVersion::V6),
            _ => None,
        };
        let out = verif_hooks::sort_preferred(input.clone(), prefer);
        let want = spec(&input, prefer);
        println!("input {:?}\noutput {:?}\nspec   {:?}", fmt_list(&input), fmt_list(&out), fmt_list(&want));
        let p = report.prop("C16", RULE);
        p.eval(Some(1));
        if out != want {
            p.violation("replay", "replayed case still differs from spec", r.clone());
        }
        return report;
    }
    hook_part(args, &mut report);
    public_part(args, &mut report);
    report
}
