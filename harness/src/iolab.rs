//! C18 — stream adapters deliver exactly the bytes written, in order.
//!
//! Scripted inner endpoints (short reads, partial and vectored writes, Pending injections, errors at an
//! offset, EOF) are wrapped by each adapter; random operation sequences are checked against a FIFO
//! reference after every operation. The same driver runs natively, under Miri, ASan and memcheck.

use std::io::IoSlice;
use std::mem::MaybeUninit;
use std::pin::Pin;
use std::sync::{Arc, Mutex};
use std::task::{Context, Poll};

use hyperdriver::bridge::io::TokioIo;
use hyperdriver::info::{ConnectionInfo, HasConnectionInfo};
use rand::rngs::StdRng;
use rand::{Rng, SeedableRng};
use serde_json::{json, Value};
use tokio::io::{AsyncRead, AsyncWrite};

use crate::report::{hash_of, Args, Report};

const RULE: &str = "scripted inner endpoint (read chunk sizes incl. 0-capacity and 1-byte, Pending injections, error at an offset, EOF; write acceptance caps, vectored writes) wrapped by each adapter {TokioIo tokio->hyper, TokioIo hyper->tokio, both nestings, Rewind with prefixes of 0..40 bytes, client Stream (NoTls), server Stream, Braid/DuplexStream pair, TCP and Unix stream pairs}; sequences of 5-200 read / write / write_vectored / flush / shutdown ops with caller buffers of capacity {0,1,2,7,24,25,4096}, pre-filled and pre-initialised regions; after every op: bytes delivered == FIFO reference, previously filled bytes untouched, filled advanced by exactly the delivered count, write return == accepted count, errors/EOF propagated; non-trivial = sequence with >= 3 reads and >= 2 writes; distinct by (adapter, script seed)";

// ---------------------------------------------------------------------------------------------
// scripted endpoint
// ---------------------------------------------------------------------------------------------

#[derive(Clone, Debug)]
pub struct Script {
    pub source: Vec<u8>,
    /// max bytes handed out per read call (cycled)
    pub read_chunks: Vec<usize>,
    /// every n-th read call returns Pending first (0 = never)
    pub read_pending_every: usize,
    pub read_error_at: Option<usize>,
    pub eof: bool,
    /// max bytes accepted per write call (cycled)
    pub write_caps: Vec<usize>,
    pub write_pending_every: usize,
    pub write_error_at: Option<usize>,
    pub vectored: bool,
}

#[derive(Default, Debug)]
pub struct EndState {
    pub read_pos: usize,
    pub read_calls: usize,
    pub read_pended: bool,
    pub written: Vec<u8>,
    pub write_calls: usize,
    pub write_pended: bool,
    pub flushed: usize,
    pub shutdown: usize,
    /// what the endpoint decided in its last call (for the oracle)
    pub last_read: LastRead,
    pub last_write: LastWrite,
    /// cumulative outcomes of the endpoint's read side (for the stream-level oracle)
    pub read_pendings: usize,
    pub read_errors: usize,
    pub read_eofs: usize,
}

#[derive(Default, Debug, Clone, PartialEq)]
pub enum LastRead {
    #[default]
    None,
    Pending,
    Eof,
    Error,
    Bytes(usize),
}

#[derive(Default, Debug, Clone, PartialEq)]
pub enum LastWrite {
    #[default]
    None,
    Pending,
    Error,
    Accepted(usize),
}

#[derive(Clone)]
pub struct Endpoint {
    pub script: Arc<Script>,
    pub st: Arc<Mutex<EndState>>,
}

impl Endpoint {
    pub fn new(script: Script) -> Self {
        Endpoint { script: Arc::new(script), st: Default::default() }
    }

    /// decide how many bytes the next read may deliver into a buffer with `room` bytes
    fn next_read(&self, cx: &mut Context<'_>, room: usize) -> Poll<std::io::Result<(usize, usize)>> {
        let mut st = self.st.lock().unwrap();
        let s = &self.script;
        st.read_calls += 1;
        if s.read_pending_every > 0 && st.read_calls % s.read_pending_every == 0 && !st.read_pended {
            st.read_pended = true;
            st.last_read = LastRead::Pending;
            st.read_pendings += 1;
            cx.waker().wake_by_ref();
            return Poll::Pending;
        }
        st.read_pended = false;
        if let Some(at) = s.read_error_at {
            if st.read_pos >= at {
                st.last_read = LastRead::Error;
                st.read_errors += 1;
                return Poll::Ready(Err(std::io::Error::new(std::io::ErrorKind::ConnectionAborted, "scripted read error")));
            }
        }
        if st.read_pos >= s.source.len() {
            if s.eof {
                st.last_read = LastRead::Eof;
                st.read_eofs += 1;
                return Poll::Ready(Ok((st.read_pos, 0)));
            }
            st.last_read = LastRead::Pending;
            st.read_pendings += 1;
            return Poll::Pending;
        }
        let chunk = s.read_chunks[st.read_calls % s.read_chunks.len()].max(1);
        let mut n = chunk.min(s.source.len() - st.read_pos).min(room);
        if let Some(at) = s.read_error_at {
            n = n.min(at - st.read_pos);
        }
        let pos = st.read_pos;
        st.read_pos += n;
        st.last_read = if n == 0 && room == 0 { LastRead::Bytes(0) } else { LastRead::Bytes(n) };
        Poll::Ready(Ok((pos, n)))
    }

    fn next_write(&self, cx: &mut Context<'_>, bufs: &[&[u8]]) -> Poll<std::io::Result<usize>> {
        let mut st = self.st.lock().unwrap();
        let s = &self.script;
        st.write_calls += 1;
        if s.write_pending_every > 0 && st.write_calls % s.write_pending_every == 0 && !st.write_pended {
            st.write_pended = true;
            st.last_write = LastWrite::Pending;
            cx.waker().wake_by_ref();
            return Poll::Pending;
        }
        st.write_pended = false;
        if let Some(at) = s.write_error_at {
            if st.written.len() >= at {
                st.last_write = LastWrite::Error;
                return Poll::Ready(Err(std::io::Error::new(std::io::ErrorKind::BrokenPipe, "scripted write error")));
            }
        }
        let cap = s.write_caps[st.write_calls % s.write_caps.len()].max(1);
        let mut left = cap;
        let mut n = 0;
        for b in bufs {
            let k = left.min(b.len());
            st.written.extend_from_slice(&b[..k]);
            n += k;
            left -= k;
            if left == 0 {
                break;
            }
        }
        st.last_write = LastWrite::Accepted(n);
        Poll::Ready(Ok(n))
    }
}

pub struct TokioEnd(pub Endpoint);
pub struct HyperEnd(pub Endpoint);

impl AsyncRead for TokioEnd {
    fn poll_read(self: Pin<&mut Self>, cx: &mut Context<'_>, buf: &mut tokio::io::ReadBuf<'_>) -> Poll<std::io::Result<()>> {
        match self.0.next_read(cx, buf.remaining()) {
            Poll::Pending => Poll::Pending,
            Poll::Ready(Err(e)) => Poll::Ready(Err(e)),
            Poll::Ready(Ok((pos, n))) => {
                buf.put_slice(&self.0.script.source[pos..pos + n]);
                Poll::Ready(Ok(()))
            }
        }
    }
}

impl AsyncWrite for TokioEnd {
    fn poll_write(self: Pin<&mut Self>, cx: &mut Context<'_>, buf: &[u8]) -> Poll<std::io::Result<usize>> {
        self.0.next_write(cx, &[buf])
    }
    fn poll_flush(self: Pin<&mut Self>, _cx: &mut Context<'_>) -> Poll<std::io::Result<()>> {
        self.0.st.lock().unwrap().flushed += 1;
        Poll::Ready(Ok(()))
    }
    fn poll_shutdown(self: Pin<&mut Self>, _cx: &mut Context<'_>) -> Poll<std::io::Result<()>> {
        self.0.st.lock().unwrap().shutdown += 1;
        Poll::Ready(Ok(()))
    }
    fn poll_write_vectored(self: Pin<&mut Self>, cx: &mut Context<'_>, bufs: &[IoSlice<'_>]) -> Poll<std::io::Result<usize>> {
        let v: Vec<&[u8]> = bufs.iter().map(|b| &**b).collect();
        self.0.next_write(cx, &v)
    }
    fn is_write_vectored(&self) -> bool {
        self.0.script.vectored
    }
}

impl hyper::rt::Read for HyperEnd {
    fn poll_read(self: Pin<&mut Self>, cx: &mut Context<'_>, mut buf: hyper::rt::ReadBufCursor<'_>) -> Poll<std::io::Result<()>> {
        let room = unsafe { buf.as_mut().len() };
        match self.0.next_read(cx, room) {
            Poll::Pending => Poll::Pending,
            Poll::Ready(Err(e)) => Poll::Ready(Err(e)),
            Poll::Ready(Ok((pos, n))) => {
                buf.put_slice(&self.0.script.source[pos..pos + n]);
                Poll::Ready(Ok(()))
            }
        }
    }
}

impl hyper::rt::Write for HyperEnd {
    fn poll_write(self: Pin<&mut Self>, cx: &mut Context<'_>, buf: &[u8]) -> Poll<std::io::Result<usize>> {
        self.0.next_write(cx, &[buf])
    }
    fn poll_flush(self: Pin<&mut Self>, _cx: &mut Context<'_>) -> Poll<std::io::Result<()>> {
        self.0.st.lock().unwrap().flushed += 1;
        Poll::Ready(Ok(()))
    }
    fn poll_shutdown(self: Pin<&mut Self>, _cx: &mut Context<'_>) -> Poll<std::io::Result<()>> {
        self.0.st.lock().unwrap().shutdown += 1;
        Poll::Ready(Ok(()))
    }
    fn poll_write_vectored(self: Pin<&mut Self>, cx: &mut Context<'_>, bufs: &[IoSlice<'_>]) -> Poll<std::io::Result<usize>> {
        let v: Vec<&[u8]> = bufs.iter().map(|b| &**b).collect();
        self.0.next_write(cx, &v)
    }
    fn is_write_vectored(&self) -> bool {
        self.0.script.vectored
    }
}

#[derive(Debug, Clone)]
pub struct LabAddr;
impl std::fmt::Display for LabAddr {
    fn fmt(&self, f: &mut std::fmt::Formatter<'_>) -> std::fmt::Result {
        write!(f, "iolab")
    }
}
impl HasConnectionInfo for TokioEnd {
    type Addr = LabAddr;
    fn info(&self) -> ConnectionInfo<LabAddr> {
        ConnectionInfo { local_addr: LabAddr, remote_addr: LabAddr }
    }
}

// ---------------------------------------------------------------------------------------------
// the two caller-side interfaces, unified
// ---------------------------------------------------------------------------------------------

pub enum ReadOutcome {
    Pending,
    Err(std::io::ErrorKind),
    /// (whole buffer content after the call = filled region, filled-before)
    Ok { filled_after: Vec<u8>, filled_before: usize },
}

pub trait Dut {
    fn read(&mut self, cx: &mut Context<'_>, cap: usize, prefill: &[u8], preinit: usize) -> ReadOutcome;
    fn write(&mut self, cx: &mut Context<'_>, data: &[u8]) -> Poll<std::io::Result<usize>>;
    fn write_vectored(&mut self, cx: &mut Context<'_>, parts: &[&[u8]]) -> Poll<std::io::Result<usize>>;
    fn flush(&mut self, cx: &mut Context<'_>) -> Poll<std::io::Result<()>>;
    fn shutdown(&mut self, cx: &mut Context<'_>) -> Poll<std::io::Result<()>>;
    fn vectored(&self) -> bool;
}

pub struct TokioSide<T>(pub T);
pub struct HyperSide<T>(pub T);

impl<T: AsyncRead + AsyncWrite + Unpin> Dut for TokioSide<T> {
    fn read(&mut self, cx: &mut Context<'_>, cap: usize, prefill: &[u8], preinit: usize) -> ReadOutcome {
        let mut storage: Vec<MaybeUninit<u8>> = Vec::with_capacity(cap + prefill.len());
        storage.resize_with(cap + prefill.len(), MaybeUninit::uninit);
        let mut rb = tokio::io::ReadBuf::uninit(&mut storage);
        rb.put_slice(prefill);
        if preinit > 0 {
            rb.initialize_unfilled_to(preinit.min(cap));
        }
        match Pin::new(&mut self.0).poll_read(cx, &mut rb) {
            Poll::Pending => ReadOutcome::Pending,
            Poll::Ready(Err(e)) => ReadOutcome::Err(e.kind()),
            Poll::Ready(Ok(())) => ReadOutcome::Ok { filled_after: rb.filled().to_vec(), filled_before: prefill.len() },
        }
    }
    fn write(&mut self, cx: &mut Context<'_>, data: &[u8]) -> Poll<std::io::Result<usize>> {
        Pin::new(&mut self.0).poll_write(cx, data)
    }
    fn write_vectored(&mut self, cx: &mut Context<'_>, parts: &[&[u8]]) -> Poll<std::io::Result<usize>> {
        let v: Vec<IoSlice<'_>> = parts.iter().map(|p| IoSlice::new(p)).collect();
        Pin::new(&mut self.0).poll_write_vectored(cx, &v)
    }
    fn flush(&mut self, cx: &mut Context<'_>) -> Poll<std::io::Result<()>> {
        Pin::new(&mut self.0).poll_flush(cx)
    }
    fn shutdown(&mut self, cx: &mut Context<'_>) -> Poll<std::io::Result<()>> {
        Pin::new(&mut self.0).poll_shutdown(cx)
    }
    fn vectored(&self) -> bool {
        self.0.is_write_vectored()
    }
}

impl<T: hyper::rt::Read + hyper::rt::Write + Unpin> Dut for HyperSide<T> {
    fn read(&mut self, cx: &mut Context<'_>, cap: usize, prefill: &[u8], _preinit: usize) -> ReadOutcome {
        let mut storage: Vec<MaybeUninit<u8>> = Vec::with_capacity(cap + prefill.len());
        storage.resize_with(cap + prefill.len(), MaybeUninit::uninit);
        let mut rb = hyper::rt::ReadBuf::uninit(&mut storage);
        rb.unfilled().put_slice(prefill);
        match Pin::new(&mut self.0).poll_read(cx, rb.unfilled()) {
            Poll::Pending => ReadOutcome::Pending,
            Poll::Ready(Err(e)) => ReadOutcome::Err(e.kind()),
            Poll::Ready(Ok(())) => ReadOutcome::Ok { filled_after: rb.filled().to_vec(), filled_before: prefill.len() },
        }
    }
    fn write(&mut self, cx: &mut Context<'_>, data: &[u8]) -> Poll<std::io::Result<usize>> {
        Pin::new(&mut self.0).poll_write(cx, data)
    }
    fn write_vectored(&mut self, cx: &mut Context<'_>, parts: &[&[u8]]) -> Poll<std::io::Result<usize>> {
        let v: Vec<IoSlice<'_>> = parts.iter().map(|p| IoSlice::new(p)).collect();
        Pin::new(&mut self.0).poll_write_vectored(cx, &v)
    }
    fn flush(&mut self, cx: &mut Context<'_>) -> Poll<std::io::Result<()>> {
        Pin::new(&mut self.0).poll_flush(cx)
    }
    fn shutdown(&mut self, cx: &mut Context<'_>) -> Poll<std::io::Result<()>> {
        Pin::new(&mut self.0).poll_shutdown(cx)
    }
    fn vectored(&self) -> bool {
        self.0.is_write_vectored()
    }
}

pub const ADAPTERS: [&str; 8] = ["tokioio-tokio-to-hyper", "tokioio-hyper-to-tokio", "tokioio-nested-tokio", "tokioio-nested-hyper", "rewind", "client-stream-notls", "server-stream-notls", "tlsbraid-notls"];

pub fn build(adapter: &str, ep: &Endpoint, prefix: &[u8]) -> Box<dyn Dut> {
    match adapter {
        "tokioio-tokio-to-hyper" => Box::new(HyperSide(TokioIo::new(TokioEnd(ep.clone())))),
        "tokioio-hyper-to-tokio" => Box::new(TokioSide(TokioIo::new(HyperEnd(ep.clone())))),
        "tokioio-nested-tokio" => Box::new(TokioSide(TokioIo::new(TokioIo::new(TokioEnd(ep.clone()))))),
        "tokioio-nested-hyper" => Box::new(HyperSide(TokioIo::new(TokioIo::new(HyperEnd(ep.clone()))))),
        "rewind" => Box::new(HyperSide(hyperdriver::verif_hooks::Rewind::new(HyperEnd(ep.clone()), prefix.to_vec()))),
        "client-stream-notls" => Box::new(TokioSide(hyperdriver::client::conn::Stream::new(TokioEnd(ep.clone())))),
        "server-stream-notls" => Box::new(TokioSide(hyperdriver::server::conn::Stream::new(TokioEnd(ep.clone())))),
        _ => Box::new(TokioSide(hyperdriver::stream::TlsBraid::<TokioEnd, TokioEnd>::NoTls(TokioEnd(ep.clone())))),
    }
}

// ---------------------------------------------------------------------------------------------
// driver
// ---------------------------------------------------------------------------------------------

pub fn gen_script(rng: &mut StdRng) -> Script {
    let len = [0usize, 1, 5, 24, 25, 100, 1000, 9000][rng.gen_range(0..8)];
    Script {
        source: (0..len).map(|i| (i as u8).wrapping_mul(31).wrapping_add(7)).collect(),
        read_chunks: (0..rng.gen_range(1..5)).map(|_| [1usize, 2, 3, 7, 24, 100, 5000][rng.gen_range(0..7)]).collect(),
        read_pending_every: [0usize, 0, 2, 3, 5][rng.gen_range(0..5)],
        read_error_at: if rng.gen_range(0..6) == 0 { Some(rng.gen_range(0..=len)) } else { None },
        eof: rng.gen_bool(0.7),
        write_caps: (0..rng.gen_range(1..5)).map(|_| [1usize, 2, 5, 16, 100, 10_000][rng.gen_range(0..6)]).collect(),
        write_pending_every: [0usize, 0, 2, 4][rng.gen_range(0..4)],
        write_error_at: if rng.gen_range(0..6) == 0 { Some(rng.gen_range(0..300)) } else { None },
        vectored: rng.gen_bool(0.5),
    }
}

#[derive(Default)]
pub struct WakeCount(pub std::sync::atomic::AtomicUsize);
impl std::task::Wake for WakeCount {
    fn wake(self: Arc<Self>) {
        self.0.fetch_add(1, std::sync::atomic::Ordering::SeqCst);
    }
    fn wake_by_ref(self: &Arc<Self>) {
        self.0.fetch_add(1, std::sync::atomic::Ordering::SeqCst);
    }
}

pub fn run_sequence(adapter: &str, seed: u64, n_ops: usize) -> (Vec<(String, String)>, (usize, usize)) {
    let mut rng = StdRng::seed_from_u64(seed);
    let script = gen_script(&mut rng);
    let prefix: Vec<u8> = if adapter == "rewind" { (0..[0usize, 1, 5, 24, 40][rng.gen_range(0..5)]).map(|i| 200u8.wrapping_sub(i as u8)).collect() } else { vec![] };
    let ep = Endpoint::new(script.clone());
    let mut dut = build(adapter, &ep, &prefix);
    let wake_count = Arc::new(WakeCount::default());
    let waker = std::task::Waker::from(wake_count.clone());
    let mut cx = Context::from_waker(&waker);
    let mut problems = Vec::new();
    // reference: what the caller must have received so far / what the inner must have accepted so far
    let mut expected_stream: Vec<u8> = prefix.clone();
    expected_stream.extend_from_slice(&script.source);
    let mut received: Vec<u8> = Vec::new();
    let mut sent_accepted: Vec<u8> = Vec::new();
    let (mut reads, mut writes) = (0usize, 0usize);
    let caps = [0usize, 1, 2, 7, 24, 25, 4096];
    let desc = |op: &str| format!("adapter {adapter} seed {seed} op {op}");
    for _ in 0..n_ops {
        match rng.gen_range(0..10) {
            0..=4 => {
                reads += 1;
                let cap = caps[rng.gen_range(0..caps.len())];
                let prefill: Vec<u8> = (0..[0usize, 0, 1, 9][rng.gen_range(0..4)]).map(|i| 0xE0 + i as u8).collect();
                let preinit = [0usize, 0, 1, 5, 4096][rng.gen_range(0..5)];
                let pend_before = ep.st.lock().unwrap().read_pendings;
                let wakes_before = wake_count.0.load(std::sync::atomic::Ordering::SeqCst);
                match dut.read(&mut cx, cap, &prefill, preinit) {
                    // Stream-level oracle: an adapter may coalesce, buffer ahead and report an end-of-stream or an error
                    // one call later than its inner stream did; it may not lose, duplicate, reorder or invent anything.
                    ReadOutcome::Pending => {
                        let st = ep.st.lock().unwrap();
                        let self_woken = wake_count.0.load(std::sync::atomic::Ordering::SeqCst) > wakes_before;
                        if st.read_pendings == pend_before && self_woken {
                            // a cooperative yield: Pending with the caller's waker already woken
                        } else if st.read_pendings == pend_before {
                            problems.push(("read:pending-invented".to_string(), format!("{}: adapter returned Pending although the inner endpoint did not, and nobody woke the caller", desc("read"))));
                        } else if received.len() < prefix.len() + st.read_pos && cap > 0 {
                            problems.push(("read:pending-while-holding-undelivered-bytes".to_string(), format!("{}: adapter returned Pending with {} byte(s) it already has and did not deliver", desc("read"), prefix.len() + st.read_pos - received.len())));
                        }
                    }
                    ReadOutcome::Err(kind) => {
                        let st = ep.st.lock().unwrap();
                        if st.read_errors == 0 {
                            problems.push(("read:error-invented".into(), format!("{}: adapter returned {kind:?} although the inner endpoint never failed", desc("read"))));
                        } else if kind != std::io::ErrorKind::ConnectionAborted {
                            problems.push(("read:error-kind-changed".into(), format!("{}: inner error ConnectionAborted surfaced as {kind:?}", desc("read"))));
                        }
                    }
                    ReadOutcome::Ok { filled_after, filled_before } => {
                        if filled_after.len() < filled_before || filled_after[..filled_before] != prefill[..] {
                            problems.push(("read:already-filled-bytes-altered".into(), format!("{}: cap {cap} prefill {prefill:?} -> {:?}", desc("read"), &filled_after[..filled_after.len().min(16)])));
                            break;
                        }
                        let got = &filled_after[filled_before..];
                        if got.len() > cap {
                            problems.push(("read:filled-beyond-capacity".into(), format!("{}: {} bytes into capacity {cap}", desc("read"), got.len())));
                            break;
                        }
                        let st = ep.st.lock().unwrap();
                        let available = prefix.len() + st.read_pos;
                        if received.len() + got.len() > available {
                            problems.push(("read:bytes-invented".into(), format!("{}: {} bytes delivered in total, the prefix and the inner stream have provided {available}", desc("read"), received.len() + got.len())));
                            break;
                        }
                        if got.is_empty() && cap > 0 {
                            // an end-of-stream claim
                            if st.read_eofs == 0 {
                                problems.push(("read:eof-invented".into(), format!("{}: adapter reported end of stream (0 bytes into capacity {cap}) although the inner endpoint never did{}", desc("read"), if st.read_errors > 0 { " (it failed: the error was swallowed)" } else { "" })));
                            } else if received.len() < available {
                                problems.push(("read:eof-before-all-bytes-were-delivered".into(), format!("{}: end of stream reported with {} byte(s) undelivered", desc("read"), available - received.len())));
                            }
                        }
                        drop(st);
                        let pos = received.len();
                        let want = &expected_stream[pos.min(expected_stream.len())..(pos + got.len()).min(expected_stream.len())];
                        if got != want {
                            problems.push(("read:bytes-differ-from-fifo".into(), format!("{}: at stream offset {pos} got {:?} want {:?}", desc("read"), &got[..got.len().min(12)], &want[..want.len().min(12)])));
                            break;
                        }
                        received.extend_from_slice(got);
                    }
                }
            }
            5..=7 => {
                writes += 1;
                let len = [0usize, 1, 3, 50, 700][rng.gen_range(0..5)];
                let data: Vec<u8> = (0..len).map(|i| (sent_accepted.len() + i) as u8 ^ 0x5a).collect();
                let vectored = rng.gen_bool(0.4);
                let before = ep.st.lock().unwrap().written.len();
                let r = if vectored {
                    let cut = if len > 1 { rng.gen_range(0..len) } else { 0 };
                    dut.write_vectored(&mut cx, &[&data[..cut], &data[cut..]])
                } else {
                    dut.write(&mut cx, &data)
                };
                let st = ep.st.lock().unwrap();
                let accepted = st.written.len() - before;
                match r {
                    Poll::Pending => {
                        if accepted != 0 {
                            problems.push(("write:pending-after-accepting-bytes".into(), format!("{}: inner accepted {accepted} bytes but the adapter returned Pending", desc("write"))));
                        }
                    }
                    Poll::Ready(Err(e)) => {
                        if st.last_write != LastWrite::Error {
                            problems.push(("write:error-invented".into(), format!("{}: {e}", desc("write"))));
                        }
                    }
                    Poll::Ready(Ok(n)) => {
                        if n > data.len() {
                            problems.push(("write:return-value-exceeds-request".into(), format!("{}: adapter returned {n} for {} bytes", desc("write"), data.len())));
                        }
                        // what the adapter has taken responsibility for so far; the inner stream must always hold a
                        // prefix of it (an adapter may keep accepted bytes until it is flushed)
                        sent_accepted.extend_from_slice(&data[..n.min(data.len())]);
                        if st.written.len() > sent_accepted.len() || st.written[..] != sent_accepted[..st.written.len()] {
                            let at = st.written.iter().zip(&sent_accepted).position(|(a, b)| a != b).unwrap_or(st.written.len().min(sent_accepted.len()));
                            problems.push((format!("write:inner-stream-is-not-a-prefix-of-the-accepted-bytes:{}", if vectored { "vectored" } else { "plain" }), format!("{}: adapter has accepted {} bytes in total, the inner stream holds {} and differs at offset {at} (this call: returned {n}, inner took {accepted})", desc("write"), sent_accepted.len(), st.written.len())));
                        }
                    }
                }
            }
            8 => {
                let before = ep.st.lock().unwrap().flushed;
                let r = dut.flush(&mut cx);
                if matches!(r, Poll::Ready(Ok(()))) {
                    let st = ep.st.lock().unwrap();
                    if st.flushed == before {
                        problems.push(("flush:not-forwarded".into(), desc("flush")));
                    } else if st.written.len() < sent_accepted.len() {
                        problems.push(("flush:accepted-bytes-not-delivered".into(), format!("{}: flush succeeded, {} accepted byte(s) have not reached the inner stream", desc("flush"), sent_accepted.len() - st.written.len())));
                    }
                }
            }
            _ => {
                if rng.gen_range(0..8) == 0 {
                    let before = ep.st.lock().unwrap().shutdown;
                    let r = dut.shutdown(&mut cx);
                    if matches!(r, Poll::Ready(Ok(()))) && ep.st.lock().unwrap().shutdown == before {
                        problems.push(("shutdown:not-forwarded".into(), desc("shutdown")));
                    }
                }
                // is_write_vectored is a performance hint: a wrapper that does not forward it still delivers the
                // right bytes through the default poll_write_vectored, so it is exercised but not judged
                let _ = dut.vectored();
            }
        }
        if !problems.is_empty() {
            break;
        }
    }
    // drain: nothing the inner stream has handed over may be left behind in the adapter
    if problems.is_empty() {
        let mut concluded = false;
        for _ in 0..48 {
            match dut.read(&mut cx, 4096, &[], 0) {
                ReadOutcome::Ok { filled_after, .. } => {
                    if filled_after.is_empty() {
                        concluded = true;
                        break;
                    }
                    let pos = received.len();
                    let want = &expected_stream[pos.min(expected_stream.len())..(pos + filled_after.len()).min(expected_stream.len())];
                    if filled_after[..] != want[..] {
                        problems.push(("read:bytes-differ-from-fifo".into(), format!("{}: (drain) at stream offset {pos} got {:?} want {:?}", desc("read"), &filled_after[..filled_after.len().min(12)], &want[..want.len().min(12)])));
                        break;
                    }
                    received.extend_from_slice(&filled_after);
                }
                // the inner stream itself has nothing more right now / failed: whatever the adapter holds it has to
                // have delivered before saying so
                ReadOutcome::Pending | ReadOutcome::Err(_) => {
                    concluded = true;
                    break;
                }
            }
        }
        let st = ep.st.lock().unwrap();
        let available = prefix.len() + st.read_pos;
        if concluded && received.len() != available && problems.is_empty() {
            problems.push(("read:bytes-lost".into(), format!("{}: after draining, {} bytes were delivered, the prefix and the inner stream provided {available}", desc("drain"), received.len())));
        }
    }
    (problems, (reads, writes))
}

// ---------------------------------------------------------------------------------------------
// real transports: duplex / TCP / Unix pairs through Braid
// ---------------------------------------------------------------------------------------------

pub async fn pair_fifo(kind: &str, seed: u64) -> Vec<(String, String)> {
    use tokio::io::{AsyncReadExt, AsyncWriteExt};
    let mut rng = StdRng::seed_from_u64(seed);
    let mut problems = Vec::new();
    let (mut a, mut b): (hyperdriver::stream::Braid, hyperdriver::stream::Braid) = match kind {
        "duplex" => {
            let (x, y) = hyperdriver::stream::duplex::DuplexStream::new([1usize, 16, 1024, 65_536][rng.gen_range(0..4)]);
            (x.into(), y.into())
        }
        "tcp" => {
            let l = tokio::net::TcpListener::bind("127.0.0.1:0").await.unwrap();
            let addr = l.local_addr().unwrap();
            let (c, s) = tokio::join!(hyperdriver::stream::TcpStream::connect(addr), l.accept());
            let (s, remote) = s.unwrap();
            (c.unwrap().into(), hyperdriver::stream::TcpStream::server(s, remote).into())
        }
        _ => {
            let (x, y) = hyperdriver::stream::UnixStream::pair().unwrap();
            (x.into(), y.into())
        }
    };
    // both directions at once: writer tasks send a known stream in random pieces, readers pull with random buffer sizes
    let total = rng.gen_range(1..40_000usize);
    let fwd: Vec<u8> = (0..total).map(|i| (i as u8).wrapping_mul(13)).collect();
    let back: Vec<u8> = (0..total / 2).map(|i| (i as u8).wrapping_mul(7).wrapping_add(1)).collect();
    let (mut ar, mut aw) = tokio::io::split(&mut a);
    let (mut br, mut bw) = tokio::io::split(&mut b);
    let sizes: Vec<usize> = (0..64).map(|_| [1usize, 2, 7, 100, 5000][rng.gen_range(0..5)]).collect();
    let s2 = sizes.clone();
    let f2 = fwd.clone();
    let b2 = back.clone();
    let send_fwd = async {
        let mut i = 0;
        let mut k = 0;
        while i < f2.len() {
            let n = sizes[k % sizes.len()].min(f2.len() - i);
            aw.write_all(&f2[i..i + n]).await.unwrap();
            i += n;
            k += 1;
        }
        aw.shutdown().await.unwrap();
    };
    let send_back = async {
        let mut i = 0;
        let mut k = 3;
        while i < b2.len() {
            let n = s2[k % s2.len()].min(b2.len() - i);
            bw.write_all(&b2[i..i + n]).await.unwrap();
            i += n;
            k += 1;
        }
        bw.shutdown().await.unwrap();
    };
    let recv_fwd = async {
        let mut got = Vec::new();
        let mut buf = vec![0u8; 3000];
        let mut k = 1;
        loop {
            let cap = [1usize, 3, 24, 3000][k % 4];
            let n = br.read(&mut buf[..cap]).await.unwrap();
            if n == 0 {
                break;
            }
            got.extend_from_slice(&buf[..n]);
            k += 1;
        }
        got
    };
    let recv_back = async {
        let mut got = Vec::new();
        ar.read_to_end(&mut got).await.unwrap();
        got
    };
    let res = tokio::time::timeout(std::time::Duration::from_secs(60), async { tokio::join!(send_fwd, send_back, recv_fwd, recv_back) }).await;
    match res {
        Err(_) => problems.push((format!("pair:{kind}:stalled"), format!("{kind} pair seed {seed}: transfer did not finish"))),
        Ok((_, _, gf, gb)) => {
            if gf != fwd {
                problems.push((format!("pair:{kind}:forward-bytes-differ"), format!("{kind} pair seed {seed}: received {} bytes, sent {}", gf.len(), fwd.len())));
            }
            if gb != back {
                problems.push((format!("pair:{kind}:backward-bytes-differ"), format!("{kind} pair seed {seed}: received {} bytes, sent {}", gb.len(), back.len())));
            }
        }
    }
    problems
}

/// The library's TLS streams end to end: the client transport's TLS stream against the TLS acceptor's stream over an
/// in-process pipe that is much smaller than the messages. Ping-pong: one side writes a message and flushes, then waits
/// for the other side's answer - whatever a flush leaves behind in a buffer is never delivered, and the exchange stalls.
pub async fn pair_tls(seed: u64) -> Vec<(String, String)> {
    use crate::e2e::{client_tls, server_tls};
    use hyperdriver::client::conn::transport::duplex::DuplexTransport;
    use hyperdriver::client::conn::transport::TransportExt as _;
    use hyperdriver::server::conn::AcceptExt as _;
    use hyperdriver::stream::tls::TlsHandshakeStream as _;
    use tokio::io::{AsyncReadExt, AsyncWriteExt};
    let mut rng = StdRng::seed_from_u64(seed);
    let mut problems = Vec::new();
    // (tokio-rustls over a tokio pipe of 64 bytes stalls on its own - probed with the reference below - so pipes start at 300)
    let buf = [300usize, 512, 4096, 65_536][rng.gen_range(0..4)];
    let lazy_handshake = rng.gen_bool(0.5);
    if std::env::var("HDV_DEBUG").is_ok() { eprintln!("pipe {buf} lazy {lazy_handshake}"); }
    let (duplex_client, incoming) = hyperdriver::stream::duplex::pair();
    let acceptor = hyperdriver::server::conn::Acceptor::from(incoming).with_tls(std::sync::Arc::new(server_tls("good", &[])));
    let rounds: Vec<(usize, usize)> = (0..rng.gen_range(1..5)).map(|_| (rng.gen_range(1..60_000usize), rng.gen_range(1..60_000usize))).collect();
    let msg = |round: usize, dir: u8, n: usize| -> Vec<u8> { (0..n).map(|i| (i as u8).wrapping_mul(31).wrapping_add(dir).wrapping_add(round as u8)).collect() };
    let r1 = rounds.clone();
    let client = async move {
        let mut transport = DuplexTransport::new(buf, duplex_client).with_tls(std::sync::Arc::new(client_tls(&[])));
        let mut s = transport.connect_with("https://a.test").await.map_err(|e| format!("client connect: {e}"))?;
        if std::env::var("HDV_DEBUG").is_ok() { eprintln!("client: connected"); }
        if !lazy_handshake {
            s.finish_handshake().await.map_err(|e| format!("client handshake: {e}"))?;
        }
        for (k, (up, down)) in r1.iter().enumerate() {
            let m = msg(k, 1, *up);
            // pieces of assorted sizes, one flush at the end of the message
            let mut i = 0;
            while i < m.len() {
                let n = [1usize, 100, 5000, 20_000][(k + i) % 4].min(m.len() - i);
                s.write_all(&m[i..i + n]).await.map_err(|e| format!("client write: {e}"))?;
                i += n;
            }
            s.flush().await.map_err(|e| format!("client flush: {e}"))?;
            if std::env::var("HDV_DEBUG").is_ok() { eprintln!("client: round {k} wrote+flushed {up}"); }
            let mut got = vec![0u8; *down];
            s.read_exact(&mut got).await.map_err(|e| format!("client read: {e}"))?;
            if got != msg(k, 2, *down) {
                return Err(format!("round {k}: the client received other bytes than the server sent ({down} bytes)"));
            }
        }
        s.shutdown().await.map_err(|e| format!("client shutdown: {e}"))?;
        let mut rest = Vec::new();
        let _ = s.read_to_end(&mut rest).await;
        if !rest.is_empty() {
            return Err(format!("the client received {} bytes that were never sent", rest.len()));
        }
        Ok::<(), String>(())
    };
    let r2 = rounds.clone();
    let server = async move {
        let mut c = acceptor.accept().await.map_err(|e| format!("accept: {e}"))?;
        if !lazy_handshake {
            c.finish_handshake().await.map_err(|e| format!("server handshake: {e}"))?;
        }
        if std::env::var("HDV_DEBUG").is_ok() { eprintln!("server: accepted (lazy={lazy_handshake})"); }
        for (k, (up, down)) in r2.iter().enumerate() {
            let mut got = vec![0u8; *up];
            c.read_exact(&mut got).await.map_err(|e| format!("server read: {e}"))?;
            if got != msg(k, 1, *up) {
                return Err(format!("round {k}: the server received other bytes than the client sent ({up} bytes)"));
            }
            c.write_all(&msg(k, 2, *down)).await.map_err(|e| format!("server write: {e}"))?;
            c.flush().await.map_err(|e| format!("server flush: {e}"))?;
            if std::env::var("HDV_DEBUG").is_ok() { eprintln!("server: round {k} got {up}, wrote+flushed {down}"); }
        }
        let mut rest = Vec::new();
        c.read_to_end(&mut rest).await.map_err(|e| format!("server read to end: {e}"))?;
        if !rest.is_empty() {
            return Err(format!("the server received {} bytes that were never sent", rest.len()));
        }
        let _ = c.shutdown().await;
        Ok::<(), String>(())
    };
    match tokio::time::timeout(std::time::Duration::from_secs(60), async { tokio::join!(client, server) }).await {
        Err(_) => {
            let reference = pair_tls_reference(buf, rounds.clone()).await;
            if std::env::var("HDV_DEBUG").is_ok() {
                eprintln!("reference (tokio-rustls over tokio::io::duplex({buf})): {reference:?}");
            }
            match reference {
                Ok(()) => problems.push(("pair:tls:stalled".to_string(), format!("tls pair seed {seed}: pipe {buf} B, messages {rounds:?}: the write+flush / read ping-pong did not finish (plain tokio-rustls over a tokio pipe of the same size does)"))),
                // not hyperdriver's doing: the same exchange without hyperdriver does not finish either
                Err(_) => problems.push(("SKIP:reference-stalls-too".to_string(), String::new())),
            }
        }
        Ok((a, b)) => {
            for r in [a, b] {
                if let Err(e) = r {
                    problems.push(("pair:tls:exchange-failed".to_string(), format!("tls pair seed {seed}: pipe {buf} B, messages {rounds:?}: {e}")));
                }
            }
        }
    }
    problems
}

/// the same ping-pong with nothing of hyperdriver in it: tokio-rustls on both ends of a tokio in-memory pipe
pub async fn pair_tls_reference(buf: usize, rounds: Vec<(usize, usize)>) -> Result<(), String> {
    use crate::e2e::{client_tls, server_tls};
    use tokio::io::{AsyncReadExt, AsyncWriteExt};
    let (a, b) = tokio::io::duplex(buf);
    let msg = |round: usize, dir: u8, n: usize| -> Vec<u8> { (0..n).map(|i| (i as u8).wrapping_mul(31).wrapping_add(dir).wrapping_add(round as u8)).collect() };
    let r1 = rounds.clone();
    let client = async move {
        let name = rustls::pki_types::ServerName::try_from("a.test").unwrap();
        let mut s = tokio_rustls::TlsConnector::from(std::sync::Arc::new(client_tls(&[]))).connect(name, a).await.map_err(|e| format!("client: {e}"))?;
        for (k, (up, down)) in r1.iter().enumerate() {
            s.write_all(&msg(k, 1, *up)).await.map_err(|e| format!("client write: {e}"))?;
            s.flush().await.map_err(|e| format!("client flush: {e}"))?;
            let mut got = vec![0u8; *down];
            s.read_exact(&mut got).await.map_err(|e| format!("client read: {e}"))?;
        }
        Ok::<(), String>(())
    };
    let server = async move {
        let mut c = tokio_rustls::TlsAcceptor::from(std::sync::Arc::new(server_tls("good", &[]))).accept(b).await.map_err(|e| format!("server: {e}"))?;
        for (k, (up, down)) in rounds.iter().enumerate() {
            let mut got = vec![0u8; *up];
            c.read_exact(&mut got).await.map_err(|e| format!("server read: {e}"))?;
            c.write_all(&msg(k, 2, *down)).await.map_err(|e| format!("server write: {e}"))?;
            c.flush().await.map_err(|e| format!("server flush: {e}"))?;
        }
        Ok::<(), String>(())
    };
    match tokio::time::timeout(std::time::Duration::from_secs(30), async { tokio::join!(client, server) }).await {
        Err(_) => Err("stalled".into()),
        Ok((a, b)) => a.and(b),
    }
}

/// one direction over a real pair, the writer using vectored writes whose slices are sized around the pipe capacity
pub async fn pair_vectored(kind: &str, seed: u64) -> Vec<(String, String)> {
    use tokio::io::{AsyncReadExt, AsyncWriteExt};
    let mut rng = StdRng::seed_from_u64(seed ^ 0x7ec);
    let mut problems = Vec::new();
    let cap = [1usize, 4, 16, 64, 1024][rng.gen_range(0..5)];
    let (mut a, mut b): (hyperdriver::stream::Braid, hyperdriver::stream::Braid) = match kind {
        "duplex" => {
            let (x, y) = hyperdriver::stream::duplex::DuplexStream::new(cap);
            (x.into(), y.into())
        }
        "tcp" => {
            let l = tokio::net::TcpListener::bind("127.0.0.1:0").await.unwrap();
            let addr = l.local_addr().unwrap();
            let (c, s) = tokio::join!(hyperdriver::stream::TcpStream::connect(addr), l.accept());
            let (s, remote) = s.unwrap();
            (c.unwrap().into(), hyperdriver::stream::TcpStream::server(s, remote).into())
        }
        _ => {
            let (x, y) = hyperdriver::stream::UnixStream::pair().unwrap();
            (x.into(), y.into())
        }
    };
    let total = rng.gen_range(1..6_000usize);
    let data: Vec<u8> = (0..total).map(|i| (i as u8).wrapping_mul(29).wrapping_add(3)).collect();
    let d2 = data.clone();
    let sizes: Vec<usize> = (0..48).map(|_| [0usize, 1, 2, cap, cap, cap.saturating_sub(1).max(1), cap + 1, 100][rng.gen_range(0..8)]).collect();
    let writer = async move {
        let mut i = 0;
        let mut k = 0;
        let mut calls = 0u32;
        while i < d2.len() {
            // 2-4 slices per call
            let ns = 2 + k % 3;
            let mut bounds = vec![i];
            for j in 0..ns {
                let last = *bounds.last().unwrap();
                bounds.push((last + sizes[(k + j) % sizes.len()]).min(d2.len()));
            }
            let slices: Vec<std::io::IoSlice<'_>> = bounds.windows(2).map(|w| std::io::IoSlice::new(&d2[w[0]..w[1]])).collect();
            let offered = bounds[ns] - i;
            let n = a.write_vectored(&slices).await.map_err(|e| format!("write_vectored: {e}"))?;
            if n > offered {
                return Err(format!("write_vectored returned {n} for {offered} offered bytes"));
            }
            if n == 0 && offered > 0 {
                return Err("write_vectored returned 0 for a non-empty request".to_string());
            }
            i += n;
            k += 1;
            calls += 1;
            if calls > 200_000 {
                return Err("writer makes no progress".to_string());
            }
        }
        a.flush().await.map_err(|e| format!("flush: {e}"))?;
        a.shutdown().await.map_err(|e| format!("shutdown: {e}"))?;
        Ok::<_, String>(())
    };
    let reader = async move {
        let mut got = Vec::new();
        let mut buf = vec![0u8; 512];
        let mut k = 0usize;
        loop {
            let c = [1usize, 5, 64, 512][k % 4];
            let n = b.read(&mut buf[..c]).await.map_err(|e| format!("read: {e}"))?;
            if n == 0 {
                break;
            }
            got.extend_from_slice(&buf[..n]);
            k += 1;
            if got.len() > 100_000 {
                return Err(format!("reader received {} bytes, far more than were written", got.len()));
            }
        }
        Ok::<_, String>(got)
    };
    match tokio::time::timeout(std::time::Duration::from_secs(60), async { tokio::join!(writer, reader) }).await {
        Err(_) => problems.push((format!("pair-vectored:{kind}:stalled"), format!("{kind} pair (capacity {cap}) seed {seed}: vectored transfer did not finish"))),
        Ok((w, r)) => {
            if let Err(e) = w {
                problems.push((format!("pair-vectored:{kind}:writer"), format!("{kind} pair (capacity {cap}) seed {seed}: {e}")));
            }
            match r {
                Err(e) => problems.push((format!("pair-vectored:{kind}:reader"), format!("{kind} pair (capacity {cap}) seed {seed}: {e}"))),
                Ok(got) => {
                    if got != data {
                        let at = got.iter().zip(&data).position(|(x, y)| x != y).unwrap_or(got.len().min(data.len()));
                        problems.push((format!("pair-vectored:{kind}:bytes-differ"), format!("{kind} pair (capacity {cap}) seed {seed}: received {} bytes, sent {}, first difference at offset {at}", got.len(), data.len())));
                    }
                }
            }
        }
    }
    problems
}

pub fn run(args: &Args) -> Report {
    let miri = args.extra.contains_key("miri") || cfg!(miri);
    let light = args.extra.contains_key("light");
    let n_seq: u64 = args.extra_u64("seqs", if miri { 6 } else if light { 300 } else if args.tier_thorough { 120_000 } else { 8_000 });
    let mut rep = Report::new("iolab");
    if let Some(path) = &args.replay {
        let v: Value = serde_json::from_str(&std::fs::read_to_string(path).unwrap()).unwrap();
        let r = &v["replay"];
        if let Some(kind) = r["pair"].as_str() {
            let rt = tokio::runtime::Builder::new_current_thread().enable_all().build().unwrap();
            let seed = r["seed"].as_u64().unwrap_or(1);
            let mut problems = if kind == "tls" { rt.block_on(pair_tls(seed)) } else { rt.block_on(pair_fifo(kind, seed)) };
            problems.retain(|(s, _)| !s.starts_with("SKIP:"));
            let p = rep.prop("C18", RULE);
            p.eval(Some(1));
            for (s, m) in problems {
                p.violation(s, m, r.clone());
            }
            return rep;
        }
        let (problems, _) = run_sequence(r["adapter"].as_str().unwrap_or("rewind"), r["seed"].as_u64().unwrap_or(1), r["ops"].as_u64().unwrap_or(100) as usize);
        let p = rep.prop("C18", RULE);
        p.eval(Some(1));
        for (s, m) in problems {
            p.violation(s, m, r.clone());
        }
        return rep;
    }
    let threads = if miri { 1 } else { args.threads };
    let part = crate::report::parallel(threads, n_seq * ADAPTERS.len() as u64, "iolab", |i, r| {
        let adapter = ADAPTERS[(i % ADAPTERS.len() as u64) as usize];
        let seed = args.seed.wrapping_mul(1_000_003).wrapping_add(i / ADAPTERS.len() as u64);
        let n_ops = if miri { 40 } else { 5 + (seed % 196) as usize };
        let (problems, (reads, writes)) = match std::panic::catch_unwind(|| run_sequence(adapter, seed, n_ops)) {
            Ok(x) => x,
            Err(e) => {
                let msg = e.downcast_ref::<String>().cloned().or_else(|| e.downcast_ref::<&str>().map(|s| s.to_string())).unwrap_or_default();
                (vec![("adapter-panicked".to_string(), format!("adapter {adapter} seed {seed}: panic while driving the adapter: {msg}"))], (0, 0))
            }
        };
        let p = r.prop("C18", RULE);
        p.eval(if reads >= 3 && writes >= 2 { Some(hash_of(&(adapter, seed))) } else { None });
        p.count(&format!("sequences_{adapter}"), 1);
        p.count("read_ops", reads as u64);
        p.count("write_ops", writes as u64);
        for (s, m) in problems {
            p.violation(format!("{s}:{adapter}"), m, json!({"engine": "iolab", "adapter": adapter, "seed": seed, "ops": n_ops}));
        }
        if p.samples.len() < 3 && reads >= 5 && writes >= 3 {
            p.sample(json!({"adapter": adapter, "script_seed": seed, "ops": n_ops, "reads": reads, "writes": writes, "verdict": "every op agreed with the FIFO reference"}));
        }
    });
    rep.merge(part);
    if !miri {
        // real transports through Braid
        let kinds = ["duplex", "tcp", "unix"];
        let n_pairs: u64 = if light { 6 } else if args.tier_thorough { 600 } else { 60 };
        let part = crate::report::parallel(args.threads.min(8), n_pairs, "iolab", |i, r| {
            let kind = kinds[(i % 3) as usize];
            let rt = tokio::runtime::Builder::new_current_thread().enable_all().build().unwrap();
            let mut problems = rt.block_on(pair_fifo(kind, args.seed.wrapping_add(i)));
            for j in 0..4u64 {
                problems.extend(rt.block_on(pair_vectored(kind, args.seed.wrapping_add(i * 4 + j))));
            }
            // the TLS streams of the client transport and of the TLS acceptor, end to end
            let tls_seed = args.seed.wrapping_mul(77).wrapping_add(i);
            let tls_problems = rt.block_on(pair_tls(tls_seed));
            {
                let p = r.prop("C18", RULE);
                p.eval(Some(hash_of(&("pair", "tls", i))));
                p.count("pairs_tls", 1);
                for (s, m) in tls_problems {
                    if s.starts_with("SKIP:") {
                        p.count("pairs_tls_not_judged_reference_stalls_too", 1);
                        continue;
                    }
                    p.violation(s, m, json!({"engine": "iolab", "pair": "tls", "seed": tls_seed}));
                }
            }
            let p = r.prop("C18", RULE);
            p.eval(Some(hash_of(&("pair", kind, i))));
            p.count(&format!("pairs_{kind}"), 1);
            p.count(&format!("pairs_vectored_{kind}"), 4);
            for (s, m) in problems {
                p.violation(s, m, json!({"engine": "iolab", "pair": kind, "seed": args.seed.wrapping_add(i)}));
            }
        });
        rep.merge(part);
    }
    if let Some(p) = rep.props.get_mut("C18") {
        p.assume("TLS record layer internals are trusted (rustls); TLS streams are checked end to end by the tlsworld and traffic engines");
        p.assume("a Miri / ASan / memcheck run of this same driver covers the memory-safety part (uninitialised bytes exposed through filled(), out-of-bounds advance)");
    }
    rep
}
