//! C08 — protocol detection is independent of how the client's bytes are fragmented.
//!
//! The real `auto::Builder::serve_connection_with_upgrades` (ReadVersion + Rewind) is fed byte streams through
//! a scripted pipe that cuts the first 32 bytes into chosen read sizes (optionally with `Pending` between
//! chunks). Differential oracle: the same bytes, unfragmented, against a plain hyper http1 connection (stream
//! does not start with the 24-byte preface) or http2 connection (it does), same service.

use std::pin::Pin;
use std::sync::{Arc, Mutex};
use std::task::{Context, Poll};
use std::time::Duration;

use bytes::Bytes;
use http_body_util::{BodyExt, Full};
use hyperdriver::bridge::rt::TokioExecutor;
use rand::rngs::StdRng;
use rand::{Rng, SeedableRng};
use serde_json::{json, Value};

use crate::report::{hash_of, Args, Report};

const PREFACE: &[u8] = b"PRI * HTTP/2.0\r\n\r\nSM\r\n\r\n";

const RULE18: &str = "sniffing path (ReadVersion + Rewind inside the auto-detecting server connection): fragmented client byte streams with and without Pending between chunks; the requests seen by the protocol handler and the response bytes must equal those of an unfragmented plain hyper connection (no byte lost, duplicated or invented on the way through the sniffer); non-trivial = at least one cut inside the first 24 bytes";
const RULE: &str = "byte streams {valid HTTP/1.1 requests (short, long headers, with body, pipelined), captured hyper HTTP/2 client sessions, every strict prefix of the preface followed by EOF, every prefix followed by a diverging byte, request lines sharing a prefix with the preface} x chunkings of the first 32 bytes {every single cut, every pair of cuts, one byte at a time, all compositions of the first 8 bytes, random compositions} x {with, without Pending between chunks}; real auto::Builder connection vs unfragmented plain hyper http1/http2 connection with the same service: served protocol, handler view of every request, response bytes (Date masked; HTTP/2 compared frame by frame); non-trivial = chunking with >= 2 chunks inside the first 24 bytes; distinct by (stream, chunking, pending)";

// ---------------------------------------------------------------------------------------------
// scripted pipe (hyper::rt::Read + Write)
// ---------------------------------------------------------------------------------------------

pub struct ScriptPipe {
    data: Vec<u8>,
    pos: usize,
    /// sizes of the first reads; afterwards everything that is left is offered at once
    cuts: Vec<usize>,
    cut_i: usize,
    pending_between: bool,
    pended: bool,
    eof: bool,
    out: Arc<Mutex<Vec<u8>>>,
}

impl ScriptPipe {
    pub fn new(data: Vec<u8>, cuts: Vec<usize>, pending_between: bool, eof: bool, out: Arc<Mutex<Vec<u8>>>) -> Self {
        ScriptPipe { data, pos: 0, cuts, cut_i: 0, pending_between, pended: false, eof, out }
    }
}

impl hyper::rt::Read for ScriptPipe {
    fn poll_read(mut self: Pin<&mut Self>, cx: &mut Context<'_>, mut buf: hyper::rt::ReadBufCursor<'_>) -> Poll<std::io::Result<()>> {
        if self.pos >= self.data.len() {
            return if self.eof { Poll::Ready(Ok(())) } else { Poll::Pending };
        }
        if self.pending_between && self.pos > 0 && !self.pended {
            self.pended = true;
            cx.waker().wake_by_ref();
            return Poll::Pending;
        }
        self.pended = false;
        let want = if self.cut_i < self.cuts.len() {
            let c = self.cuts[self.cut_i];
            self.cut_i += 1;
            c
        } else {
            usize::MAX
        };
        let room = unsafe { buf.as_mut().len() };
        let n = want.min(self.data.len() - self.pos).min(room);
        if n < want && want != usize::MAX && n > 0 {
            // the reader's buffer was smaller than the scripted chunk: deliver the rest of the chunk next
            let rest = want - n;
            self.cut_i -= 1;
            let i = self.cut_i;
            self.cuts[i] = rest;
        }
        let pos = self.pos;
        buf.put_slice(&self.data[pos..pos + n]);
        self.pos += n;
        Poll::Ready(Ok(()))
    }
}

impl hyper::rt::Write for ScriptPipe {
    fn poll_write(self: Pin<&mut Self>, _cx: &mut Context<'_>, buf: &[u8]) -> Poll<std::io::Result<usize>> {
        self.out.lock().unwrap().extend_from_slice(buf);
        Poll::Ready(Ok(buf.len()))
    }
    fn poll_flush(self: Pin<&mut Self>, _cx: &mut Context<'_>) -> Poll<std::io::Result<()>> {
        Poll::Ready(Ok(()))
    }
    fn poll_shutdown(self: Pin<&mut Self>, _cx: &mut Context<'_>) -> Poll<std::io::Result<()>> {
        Poll::Ready(Ok(()))
    }
}

// ---------------------------------------------------------------------------------------------
// the service under both implementations
// ---------------------------------------------------------------------------------------------

#[derive(Debug, Clone, PartialEq, Eq)]
pub struct Seen {
    pub method: String,
    pub uri: String,
    pub version: String,
    pub headers: Vec<(String, String)>,
    pub body: Vec<u8>,
}

#[derive(Clone)]
pub struct EchoSvc {
    log: Arc<Mutex<Vec<Seen>>>,
}

fn service(log: Arc<Mutex<Vec<Seen>>>) -> EchoSvc {
    EchoSvc { log }
}

impl hyper::service::Service<hyper::Request<hyper::body::Incoming>> for EchoSvc {
    type Response = hyper::Response<Full<Bytes>>;
    type Error = std::convert::Infallible;
    type Future = Pin<Box<dyn std::future::Future<Output = Result<Self::Response, Self::Error>> + Send>>;

    fn call(&self, req: hyper::Request<hyper::body::Incoming>) -> Self::Future {
        let log = self.log.clone();
        Box::pin(async move {
            let (parts, body) = req.into_parts();
            let data = body.collect().await.map(|c| c.to_bytes().to_vec()).unwrap_or_else(|_| b"<body error>".to_vec());
            let mut headers: Vec<(String, String)> = parts.headers.iter().map(|(k, v)| (k.to_string(), v.to_str().unwrap_or("?").to_string())).collect();
            headers.sort();
            log.lock().unwrap().push(Seen { method: parts.method.to_string(), uri: parts.uri.to_string(), version: format!("{:?}", parts.version), headers, body: data.clone() });
            let mut resp = hyper::Response::new(Full::new(Bytes::from(format!("echo:{}:{}:{}", parts.method, parts.uri, data.len()))));
            resp.headers_mut().insert("x-echo-len", hyper::header::HeaderValue::from(data.len() as u64));
            Ok::<_, std::convert::Infallible>(resp)
        })
    }
}

#[derive(Debug, Clone, PartialEq, Eq)]
pub struct Observed {
    pub seen: Vec<Seen>,
    pub out: Vec<u8>,
    pub finished: Option<Result<(), String>>,
}

async fn quiesce() {
    for _ in 0..4 {
        tokio::time::sleep(Duration::from_millis(1)).await;
    }
}

pub async fn run_auto(data: &[u8], cuts: Vec<usize>, pending: bool, eof: bool) -> Observed {
    let out = Arc::new(Mutex::new(Vec::new()));
    let log = Arc::new(Mutex::new(Vec::new()));
    let pipe = ScriptPipe::new(data.to_vec(), cuts, pending, eof, out.clone());
    let svc = service(log.clone());
    let h = tokio::spawn(async move {
        let builder = hyperdriver::server::AutoBuilder::new(TokioExecutor::new());
        let conn = builder.serve_connection_with_upgrades(pipe, svc);
        conn.await.map_err(|e| format!("{e}"))
    });
    quiesce().await;
    let finished = if h.is_finished() { Some(h.await.unwrap_or_else(|e| Err(format!("panic: {e}")))) } else { h.abort(); None };
    let seen = log.lock().unwrap().clone();
    let o = out.lock().unwrap().clone();
    Observed { seen, out: o, finished }
}

pub async fn run_reference(data: &[u8], eof: bool) -> Observed {
    let out = Arc::new(Mutex::new(Vec::new()));
    let log = Arc::new(Mutex::new(Vec::new()));
    let pipe = ScriptPipe::new(data.to_vec(), vec![], false, eof, out.clone());
    let svc = service(log.clone());
    let h2 = data.len() >= PREFACE.len() && &data[..PREFACE.len()] == PREFACE;
    let h = tokio::spawn(async move {
        if h2 {
            hyper::server::conn::http2::Builder::new(TokioExecutor::new()).serve_connection(pipe, svc).await.map_err(|e| format!("{e}"))
        } else {
            hyper::server::conn::http1::Builder::new().serve_connection(pipe, svc).with_upgrades().await.map_err(|e| format!("{e}"))
        }
    });
    quiesce().await;
    let finished = if h.is_finished() { Some(h.await.unwrap_or_else(|e| Err(format!("panic: {e}")))) } else { h.abort(); None };
    let seen = log.lock().unwrap().clone();
    let o = out.lock().unwrap().clone();
    Observed { seen, out: o, finished }
}

/// capture what a real hyper HTTP/2 client writes during one complete exchange with a plain hyper server
pub async fn capture_h2_session(n_requests: usize, body_len: usize) -> Vec<u8> {
    let (a, b) = tokio::io::duplex(1 << 16);
    let captured = Arc::new(Mutex::new(Vec::new()));
    struct Tee<T> {
        inner: T,
        cap: Arc<Mutex<Vec<u8>>>,
    }
    impl<T: tokio::io::AsyncRead + Unpin> tokio::io::AsyncRead for Tee<T> {
        fn poll_read(mut self: Pin<&mut Self>, cx: &mut Context<'_>, buf: &mut tokio::io::ReadBuf<'_>) -> Poll<std::io::Result<()>> {
            Pin::new(&mut self.inner).poll_read(cx, buf)
        }
    }
    impl<T: tokio::io::AsyncWrite + Unpin> tokio::io::AsyncWrite for Tee<T> {
        fn poll_write(mut self: Pin<&mut Self>, cx: &mut Context<'_>, buf: &[u8]) -> Poll<std::io::Result<usize>> {
            let r = Pin::new(&mut self.inner).poll_write(cx, buf);
            if let Poll::Ready(Ok(n)) = &r {
                self.cap.lock().unwrap().extend_from_slice(&buf[..*n]);
            }
            r
        }
        fn poll_flush(mut self: Pin<&mut Self>, cx: &mut Context<'_>) -> Poll<std::io::Result<()>> {
            Pin::new(&mut self.inner).poll_flush(cx)
        }
        fn poll_shutdown(mut self: Pin<&mut Self>, cx: &mut Context<'_>) -> Poll<std::io::Result<()>> {
            Pin::new(&mut self.inner).poll_shutdown(cx)
        }
    }
    let log = Arc::new(Mutex::new(Vec::new()));
    let svc = service(log);
    let srv = tokio::spawn(async move {
        let _ = hyper::server::conn::http2::Builder::new(TokioExecutor::new()).serve_connection(hyperdriver::bridge::io::TokioIo::new(b), svc).await;
    });
    let tee = Tee { inner: a, cap: captured.clone() };
    let (mut send, conn) = hyper::client::conn::http2::Builder::new(TokioExecutor::new()).handshake(hyperdriver::bridge::io::TokioIo::new(tee)).await.expect("h2 handshake");
    let driver = tokio::spawn(conn);
    for i in 0..n_requests {
        let req = hyper::Request::builder().method("POST").uri(format!("http://sniff.test/s/{i}?q={i}")).header("x-n", i as u64).body(Full::new(Bytes::from(vec![b'a' + (i as u8 % 26); body_len]))).unwrap();
        let resp = send.send_request(req).await.expect("h2 request");
        let _ = resp.into_body().collect().await;
    }
    quiesce().await;
    driver.abort();
    srv.abort();
    let v = captured.lock().unwrap().clone();
    v
}

fn h2_frames(b: &[u8]) -> Vec<(u32, u8, u8, u32, Vec<u8>)> {
    // (len, type, flags, stream, payload-if-DATA)
    let mut v = Vec::new();
    let mut i = 0;
    while i + 9 <= b.len() {
        let len = ((b[i] as u32) << 16) | ((b[i + 1] as u32) << 8) | b[i + 2] as u32;
        let ty = b[i + 3];
        let flags = b[i + 4];
        let stream = u32::from_be_bytes([b[i + 5] & 0x7f, b[i + 6], b[i + 7], b[i + 8]]);
        let end = (i + 9 + len as usize).min(b.len());
        let payload = if ty == 0 { b[i + 9..end].to_vec() } else { vec![] };
        v.push((len, ty, flags, stream, payload));
        i = end;
    }
    v
}

fn mask_h1(out: &[u8]) -> Vec<u8> {
    // drop the value of every Date header
    let s = String::from_utf8_lossy(out);
    let mut r = String::new();
    for line in s.split_inclusive("\r\n") {
        if line.to_ascii_lowercase().starts_with("date:") {
            r.push_str("date: <masked>\r\n");
        } else {
            r.push_str(line);
        }
    }
    r.into_bytes()
}

fn classify(out: &[u8]) -> &'static str {
    if out.starts_with(b"HTTP/1.") {
        "http1-response"
    } else if out.len() >= 9 && out[3] == 0x04 {
        "http2-settings"
    } else if out.is_empty() {
        "nothing"
    } else {
        "other"
    }
}

#[derive(Clone, Debug)]
pub struct Stream {
    pub name: String,
    pub data: Vec<u8>,
    pub eof: bool,
}

pub async fn streams() -> Vec<Stream> {
    let mut v = Vec::new();
    let mk = |name: &str, data: Vec<u8>, eof: bool| Stream { name: name.to_string(), data, eof };
    v.push(mk("h1-short-get", b"GET / HTTP/1.1\r\nhost: s.test\r\n\r\n".to_vec(), false));
    v.push(mk("h1-get-eof", b"GET /x?y=1 HTTP/1.1\r\nhost: s.test\r\nconnection: close\r\n\r\n".to_vec(), true));
    let mut long = b"GET /long/path/that/goes/on?and=on HTTP/1.1\r\nhost: s.test\r\n".to_vec();
    for i in 0..20 {
        long.extend_from_slice(format!("x-h{i}: {}\r\n", "v".repeat(40)).as_bytes());
    }
    long.extend_from_slice(b"\r\n");
    v.push(mk("h1-long-headers", long, false));
    let body: Vec<u8> = (0..500u32).map(|i| (i % 251) as u8).collect();
    let mut post = format!("POST /upload HTTP/1.1\r\nhost: s.test\r\ncontent-length: {}\r\n\r\n", body.len()).into_bytes();
    post.extend_from_slice(&body);
    v.push(mk("h1-post-body", post.clone(), false));
    let mut pipelined = post.clone();
    pipelined.extend_from_slice(b"GET /second HTTP/1.1\r\nhost: s.test\r\n\r\n");
    v.push(mk("h1-pipelined", pipelined, true));
    v.push(mk("h1-shares-prefix-PRI-star-http11", b"PRI * HTTP/1.1\r\nhost: s.test\r\n\r\n".to_vec(), true));
    v.push(mk("h1-shares-prefix-PRINT", b"PRINT /doc HTTP/1.1\r\nhost: s.test\r\ncontent-length: 0\r\n\r\n".to_vec(), true));
    v.push(mk("h1-P", b"P".to_vec(), true));
    v.push(mk("h1-PR", b"PR".to_vec(), true));
    v.push(mk("h1-short-method", b"PUT /a HTTP/1.1\r\nhost: s.test\r\ncontent-length: 3\r\n\r\nabc".to_vec(), true));
    for k in 1..PREFACE.len() {
        v.push(mk(&format!("preface-prefix-{k}-eof"), PREFACE[..k].to_vec(), true));
        let mut d = PREFACE[..k].to_vec();
        d.push(PREFACE[k] ^ 0x20);
        d.extend_from_slice(b" / HTTP/1.1\r\nhost: s.test\r\n\r\n");
        v.push(mk(&format!("preface-prefix-{k}-diverges"), d, true));
    }
    // under Miri the captured session comes from a committed fixture (capturing it costs minutes there)
    let fixture = std::path::PathBuf::from(concat!(env!("CARGO_MANIFEST_DIR"), "/../fixtures/h2/session1.bin"));
    if cfg!(miri) {
        v.push(mk("h2-session-1-request", std::fs::read(&fixture).expect("fixtures/h2/session1.bin"), false));
    } else {
        let s1 = capture_h2_session(1, 10).await;
        if std::env::var("HDV_WRITE_FIXTURES").is_ok() {
            let _ = std::fs::create_dir_all(fixture.parent().unwrap());
            std::fs::write(&fixture, &s1).expect("write fixture");
        }
        v.push(mk("h2-session-1-request", s1, false));
        v.push(mk("h2-session-3-requests-body", capture_h2_session(3, 3000).await, false));
    }
    let mut p = PREFACE.to_vec();
    p.extend_from_slice(&[0, 0, 0, 4, 0, 0, 0, 0, 0]);
    v.push(mk("h2-preface-and-empty-settings-eof", p, true));
    v.push(mk("h2-preface-only-eof", PREFACE.to_vec(), true));
    v
}

pub fn chunkings(seed: u64, thorough: bool, data_len: usize) -> Vec<Vec<usize>> {
    let n = 32usize.min(data_len);
    let mut v: Vec<Vec<usize>> = Vec::new();
    v.push(vec![]);
    for a in 1..n {
        v.push(vec![a]);
    }
    let pair_step = if thorough { 1 } else { 3 };
    for a in 1..n {
        for b in ((a + 1)..n).step_by(pair_step) {
            v.push(vec![a, b - a]);
        }
    }
    v.push(vec![1; n]);
    v.push(vec![2; n / 2 + 1]);
    // all compositions of the first 8 bytes
    let m = 8usize.min(n);
    if m >= 2 {
        for mask in 0..(1u32 << (m - 1)) {
            let mut parts = Vec::new();
            let mut cur = 1;
            for i in 0..(m - 1) {
                if mask & (1 << i) != 0 {
                    parts.push(cur);
                    cur = 1;
                } else {
                    cur += 1;
                }
            }
            parts.push(cur);
            if thorough || mask % 4 == 0 {
                v.push(parts);
            }
        }
    }
    let mut rng = StdRng::seed_from_u64(seed ^ data_len as u64);
    for _ in 0..(if thorough { 200 } else { 30 }) {
        let mut left = n;
        let mut parts = Vec::new();
        while left > 0 {
            let c = rng.gen_range(1..=left.min(9));
            parts.push(c);
            left -= c;
        }
        v.push(parts);
    }
    v
}

pub fn compare(s: &Stream, cuts: &[usize], pending: bool, got: &Observed, want: &Observed) -> Vec<(String, String)> {
    let mut p = Vec::new();
    let h2 = s.data.len() >= 24 && &s.data[..24] == PREFACE;
    let (cg, cw) = (classify(&got.out), classify(&want.out));
    let tag = if h2 { "stream-with-preface" } else { "stream-without-preface" };
    if cg != cw {
        p.push((format!("served-as-{cg}-instead-of-{cw}:{tag}"), format!("stream {} chunking {:?} pending={pending}: auto connection answered {cg}, reference {cw}", s.name, cuts)));
        return p;
    }
    if got.seen != want.seen {
        p.push((format!("handler-view-differs:{tag}"), format!("stream {} chunking {:?} pending={pending}: handler saw {:?}, reference {:?}", s.name, cuts, got.seen.iter().map(|x| format!("{} {} body={}B", x.method, x.uri, x.body.len())).collect::<Vec<_>>(), want.seen.iter().map(|x| format!("{} {} body={}B", x.method, x.uri, x.body.len())).collect::<Vec<_>>())));
    }
    if cw == "http2-settings" {
        // the response of each stream (HEADERS + DATA in order) must be identical; connection-level frames
        // (SETTINGS, ACKs, WINDOW_UPDATE) may be interleaved differently depending on when bytes arrived
        let norm = |b: &[u8]| {
            let f = h2_frames(b);
            // the length of a HEADERS frame depends on the HPACK encoding of the Date header (a literal when the
            // wall-clock second ticked since the previous response, an index otherwise): not compared
            let mut streams: Vec<_> = f.iter().filter(|x| x.1 <= 1).cloned().map(|mut x| { if x.1 == 1 { x.0 = 0; } x }).collect();
            streams.sort_by_key(|x| x.3);
            // flow-control and keep-alive frames depend on timing, not on the bytes
            let mut control: Vec<_> = f.iter().filter(|x| x.1 > 1 && x.1 != 8 && x.1 != 6).map(|x| (x.0, x.1, x.2, x.3)).collect();
            control.sort();
            (streams, control)
        };
        let (fg, fw) = (norm(&got.out), norm(&want.out));
        if fg != fw {
            p.push((format!("response-frames-differ:{tag}"), format!("stream {} chunking {:?} pending={pending}: {:?} vs reference {:?}", s.name, cuts, h2_frames(&got.out).iter().map(|x| (x.0, x.1, x.2, x.3)).collect::<Vec<_>>(), h2_frames(&want.out).iter().map(|x| (x.0, x.1, x.2, x.3)).collect::<Vec<_>>())));
        }
    } else if mask_h1(&got.out) != mask_h1(&want.out) {
        p.push((format!("response-bytes-differ:{tag}"), format!("stream {} chunking {:?} pending={pending}: {:?} vs reference {:?}", s.name, cuts, String::from_utf8_lossy(&got.out[..got.out.len().min(120)]), String::from_utf8_lossy(&want.out[..want.out.len().min(120)]))));
    }
    // the connection ends (or not) alike
    match (&got.finished, &want.finished) {
        (None, Some(_)) => p.push((format!("connection-still-open:{tag}"), format!("stream {} chunking {:?}: auto connection still pending, reference finished", s.name, cuts))),
        (Some(_), None) => p.push((format!("connection-ended-early:{tag}"), format!("stream {} chunking {:?}: auto connection finished {:?}, reference still open", s.name, cuts, got.finished))),
        _ => {}
    }
    p
}

pub fn run(args: &Args) -> Report {
    let rt = tokio::runtime::Builder::new_current_thread().enable_all().start_paused(true).build().unwrap();
    let all_streams = rt.block_on(streams());
    drop(rt);
    let miri = args.extra.contains_key("miri");
    let mut jobs: Vec<(usize, Vec<usize>, bool)> = Vec::new();
    if miri {
        // a spread sample of `--miri N` cases, split over `--shard i/k` processes; built directly (enumerating
        // the whole case list is itself slow under the interpreter)
        let want = args.extra_u64("miri", 12).max(1) as usize;
        let (shard_i, shard_k) = args.extra.get("shard").and_then(|s| s.split_once('/')).map(|(a, b)| (a.parse::<usize>().unwrap_or(0), b.parse::<usize>().unwrap_or(1).max(1))).unwrap_or((0, 1));
        let mut rng = StdRng::seed_from_u64(args.seed ^ 0x3141);
        for i in 0..want {
            let si = if i % 3 == 0 { all_streams.iter().position(|s| s.name == "h2-session-1-request").unwrap_or(0) } else { rng.gen_range(0..all_streams.len()) };
            let n = 32usize.min(all_streams[si].data.len()).max(1);
            let cuts: Vec<usize> = match i % 4 {
                0 => vec![rng.gen_range(1..n.max(2))],
                1 => vec![1; n],
                2 => {
                    let a = rng.gen_range(1..n.max(2));
                    vec![a, rng.gen_range(1..9)]
                }
                _ => (0..6).map(|_| rng.gen_range(1..7)).collect(),
            };
            if i % shard_k == shard_i {
                jobs.push((si, cuts, i % 2 == 1));
            }
        }
    } else {
        for (si, s) in all_streams.iter().enumerate() {
            let cs = chunkings(args.seed, args.tier_thorough, s.data.len());
            for c in cs {
                for pending in [false, true] {
                    jobs.push((si, c.clone(), pending));
                }
            }
        }
    }
    if let Some(path) = &args.replay {
        let v: Value = serde_json::from_str(&std::fs::read_to_string(path).unwrap()).unwrap();
        let r = &v["replay"];
        let name = r["stream"].as_str().unwrap_or("");
        let cuts: Vec<usize> = r["cuts"].as_array().map(|a| a.iter().filter_map(|x| x.as_u64().map(|x| x as usize)).collect()).unwrap_or_default();
        let pending = r["pending"].as_bool().unwrap_or(false);
        jobs = all_streams.iter().enumerate().filter(|(_, s)| s.name == name).map(|(i, _)| (i, cuts.clone(), pending)).collect();
    }
    let chunk = 64u64;
    let njobs = (jobs.len() as u64 + chunk - 1) / chunk;
    let (jr, sr) = (&jobs, &all_streams);
    let threads = if miri { 1 } else { args.threads };
    let mut rep = crate::report::parallel(threads, njobs, "sniff", |j, r| {
        let rt = tokio::runtime::Builder::new_current_thread().enable_all().start_paused(true).build().unwrap();
        let lo = (j * chunk) as usize;
        let hi = (lo + chunk as usize).min(jr.len());
        let mut refs: std::collections::HashMap<usize, Observed> = Default::default();
        for (si, cuts, pending) in &jr[lo..hi] {
            let s = &sr[*si];
            let want = refs.entry(*si).or_insert_with(|| rt.block_on(run_reference(&s.data, s.eof))).clone();
            let got = rt.block_on(run_auto(&s.data, cuts.clone(), *pending, s.eof));
            // asked for C18: the same runs, judged only for byte integrity between the client and the protocol handler
            // (ReadVersion + Rewind are stream adapters); which protocol is detected is C08's business
            let for_c18 = args.wants("C18") && !args.wants("C08");
            let p = if for_c18 { r.prop("C18", RULE18) } else { r.prop("C08", RULE) };
            let inside: usize = {
                let mut acc = 0;
                let mut n = 0;
                for c in cuts {
                    acc += c;
                    if acc < 24 {
                        n += 1;
                    }
                }
                n
            };
            p.eval(if inside >= 1 { Some(hash_of(&(s.name.as_str(), cuts, pending))) } else { None });
            p.count(if s.data.len() >= 24 && &s.data[..24] == PREFACE { "cases_stream_with_preface" } else { "cases_stream_without_preface" }, 1);
            if *pending {
                p.count("cases_with_pending_between_chunks", 1);
            }
            p.count(&format!("served_{}", classify(&got.out)), 1);
            for (sig, msg) in compare(s, cuts, *pending, &got, &want) {
                if for_c18 {
                    if sig.starts_with("handler-view-differs") || sig.starts_with("response-bytes-differ") || sig.starts_with("response-frames-differ") {
                        p.violation(format!("sniffing-path:{sig}"), msg, json!({"engine": "sniff", "stream": s.name, "cuts": cuts, "pending": pending}));
                    }
                } else {
                    p.violation(sig, msg, json!({"engine": "sniff", "stream": s.name, "cuts": cuts, "pending": pending}));
                }
            }
            if p.samples.len() < 4 && inside >= 2 && s.name.starts_with("h2-session") {
                p.sample(json!({"stream": s.name, "stream_len": s.data.len(), "cuts": cuts, "pending_between": pending, "served": classify(&got.out), "handler_saw": got.seen.iter().map(|x| format!("{} {} {} body={}B", x.method, x.uri, x.version, x.body.len())).collect::<Vec<_>>()}));
            }
        }
    });
    if !miri && args.replay.is_none() && args.wants("C08") {
        rep.merge(server_level_pipelining());
        rep.merge(server_level_tls());
    }
    if let Some(p) = rep.props.get_mut("C18") {
        p.exhaustive = Some(false);
        p.assume("reference = plain hyper http1/http2 server connection fed the same bytes in one read");
    }
    if let Some(p) = rep.props.get_mut("C08") {
        p.exhaustive = Some(false);
        p.assume("reference = plain hyper http1/http2 server connection fed the same bytes in one read; Date header values are masked, HTTP/2 output compared by frame header and DATA payload");
        p.assume("HTTP/2 client bytes are captured once from a real hyper client session and replayed (the server side does not depend on client ACK timing)");
        p.count("streams", all_streams.len() as u64);
    }
    rep
}


/// Server level (`Server::builder().with_auto_http()` / `.with_http1()` on a duplex acceptor): two pipelined HTTP/1.1
/// requests, the client's bytes cut inside the second one. The first request is complete, so its response must arrive
/// before the rest of the second request is sent - exactly as on a single-protocol server - wherever the cut falls.
/// The auto-detecting server behind the TLS acceptor (the sniffing wrapper then sits between hyper and the TLS stream):
/// keep-alive requests whose answers are much larger than the pipe must be answered completely, as they are by the
/// HTTP/1-only server behind the same acceptor.
fn server_level_tls() -> Report {
    use crate::e2e::shutdown::{h1_request, parse_h1_response};
    use crate::e2e::*;
    use tokio::io::{AsyncReadExt, AsyncWriteExt};
    let mut rep = Report::new("sniff");
    let rt = tokio::runtime::Builder::new_current_thread().enable_all().start_paused(true).build().unwrap();
    for proto in [Proto::Auto, Proto::H1] {
        for pipe in [300usize, 1024, 16_384] {
            for ids in [[5u64, 12], [4, 5], [1, 3], [26, 5]] {
                let problems: Vec<(String, String)> = rt.block_on(async move {
                    let mut problems = Vec::new();
                    let log = Arc::new(Log::default());
                    let gates = Gates::default();
                    let server = spawn_server(ServerSpec { id: 0, proto, net: Net::Duplex(pipe), tls: Some(Arc::new(server_tls("good", &["http/1.1"]))), graceful: false, sni_validation: false }, log.clone(), gates.clone()).await;
                    let Target::Duplex(dclient, _) = server.target.clone() else { unreachable!() };
                    let Ok(io) = dclient.connect(pipe).await else { return vec![("server-level-tls:connect-failed".to_string(), String::new())] };
                    let name = rustls::pki_types::ServerName::try_from("a.test").unwrap();
                    let mut tls = match tokio::time::timeout(std::time::Duration::from_secs(600), tokio_rustls::TlsConnector::from(Arc::new(client_tls(&["http/1.1"]))).connect(name, io)).await {
                        Ok(Ok(t)) => t,
                        other => return vec![("server-level-tls:handshake-failed".to_string(), format!("{:?}", other.map(|r| r.map(|_| ()).map_err(|e| e.to_string()))))],
                    };
                    for id in ids {
                        let (head, body) = h1_request(id, 9, None, true);
                        let _ = tls.write_all(&head).await;
                        let _ = tls.write_all(&body).await;
                        let _ = tls.flush().await;
                        let mut got = Vec::new();
                        let mut buf = [0u8; 8192];
                        loop {
                            if parse_h1_response(&got).map(|p| p.complete).unwrap_or(false) {
                                break;
                            }
                            match tokio::time::timeout(std::time::Duration::from_millis(50), tls.read(&mut buf)).await {
                                Ok(Ok(n)) if n > 0 => got.extend_from_slice(&buf[..n]),
                                _ => break,
                            }
                        }
                        match parse_h1_response(&got) {
                            Some(p) if p.complete => {
                                if p.body.len() != resp_len(id) || p.headers.get("x-id").and_then(|v| v.to_str().ok()) != Some(&id.to_string()) {
                                    problems.push((format!("server-level-tls:response-differs:{proto:?}"), format!("request {id}: {} body bytes, x-id {:?}; want {} bytes", p.body.len(), p.headers.get("x-id"), resp_len(id))));
                                }
                            }
                            _ => {
                                problems.push((
                                    format!("server-level-tls:response-incomplete-at-quiescence:{proto:?}"),
                                    format!("keep-alive request {id} (answer of {} bytes) over TLS through a {pipe} B pipe: {} bytes received when nothing can make progress any more", resp_len(id), got.len()),
                                ));
                                break;
                            }
                        }
                    }
                    server.join.abort();
                    problems
                });
                let p = rep.prop("C08", RULE);
                p.eval(Some(hash_of(&("server-level-tls", format!("{proto:?}"), pipe, ids))));
                p.count("server_level_tls_cases", 1);
                for (sig, msg) in problems {
                    p.violation(sig, msg, json!({"engine": "sniff", "server_level_tls": true, "proto": format!("{proto:?}"), "pipe": pipe, "ids": ids}));
                }
            }
        }
    }
    rep
}

fn server_level_pipelining() -> Report {
    use crate::e2e::shutdown::{h1_request, parse_h1_response, read_available};
    use crate::e2e::*;
    use tokio::io::AsyncWriteExt;
    let mut rep = Report::new("sniff");
    let rt = tokio::runtime::Builder::new_current_thread().enable_all().start_paused(true).build().unwrap();
    for proto in [Proto::Auto, Proto::H1] {
        for first_body in [0usize, 10, 3000] {
            let (h2a, b2a) = h1_request(2, 7, None, true);
            let mut second = h2a.clone();
            second.extend_from_slice(&b2a);
            for k in [0usize, 1, 4, 5, 17, 24, 40, second.len() - 1] {
                let k = k.min(second.len() - 1);
                let second = second.clone();
                let problems: Vec<(String, String)> = rt.block_on(async move {
                    let mut problems = Vec::new();
                    let log = Arc::new(Log::default());
                    let gates = Gates::default();
                    let server = spawn_server(ServerSpec { id: 0, proto, net: Net::Duplex(65_536), tls: None, graceful: false, sni_validation: false }, log.clone(), gates.clone()).await;
                    let Target::Duplex(dclient, _) = server.target.clone() else { unreachable!() };
                    let Ok(mut io) = dclient.connect(65_536).await else { return vec![("server-level:connect-failed".to_string(), String::new())] };
                    let (h1, b1) = h1_request(1, first_body, None, true);
                    let mut first_write = h1.clone();
                    first_write.extend_from_slice(&b1);
                    first_write.extend_from_slice(&second[..k]);
                    let _ = io.write_all(&first_write).await;
                    for _ in 0..3 {
                        tokio::time::sleep(std::time::Duration::from_millis(5)).await;
                    }
                    let mut got = Vec::new();
                    let _ = read_available(&mut io, &mut got).await;
                    match parse_h1_response(&got) {
                        Some(p) if p.complete => {
                            if p.headers.get("x-id").and_then(|v| v.to_str().ok()) != Some("1") {
                                problems.push((format!("server-level:first-response-is-not-for-the-first-request:{proto:?}"), format!("cut {k}: x-id {:?}", p.headers.get("x-id"))));
                            }
                        }
                        _ => problems.push((
                            format!("server-level:first-response-withheld-until-more-bytes-arrive:{proto:?}"),
                            format!("two pipelined requests, the first complete ({first_body} B body), {k} byte(s) of the second in the same write: {} response bytes at quiescence (a single-protocol hyper server answers the first request at once)", got.len()),
                        )),
                    }
                    let _ = io.write_all(&second[k..]).await;
                    for _ in 0..3 {
                        tokio::time::sleep(std::time::Duration::from_millis(5)).await;
                    }
                    let _ = read_available(&mut io, &mut got).await;
                    let ids: Vec<String> = log.handled.lock().unwrap().iter().map(|h| format!("{:?}", h.header_id)).collect();
                    if ids != ["Some(1)", "Some(2)"] {
                        problems.push((format!("server-level:handler-view-differs:{proto:?}"), format!("cut {k}: handler saw requests {ids:?}, sent [1, 2]")));
                    }
                    server.join.abort();
                    problems
                });
                let p = rep.prop("C08", RULE);
                p.eval(Some(hash_of(&("server-level", format!("{proto:?}"), first_body, k))));
                p.count("server_level_pipelined_cases", 1);
                for (sig, msg) in problems {
                    p.violation(sig, msg, json!({"engine": "sniff", "server_level": true, "proto": format!("{proto:?}"), "first_body": first_body, "cut": k}));
                }
            }
        }
    }
    rep
}
