pub mod addrsort;
pub mod cli;
pub mod report;
