pub mod addrsort;
pub mod cli;
pub mod e2e;
pub mod eyeballs;
pub mod lab;
pub mod report;
pub mod reqsweep;
