pub mod addrsort;
pub mod cli;
pub mod eyeballs;
pub mod report;
pub mod reqsweep;
