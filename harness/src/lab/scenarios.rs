//! Scenario sources for PoolLab (templates, random walks, bounded-exhaustive BFS) and the engine entry.

use std::collections::{BTreeMap, BTreeSet, HashSet};

use rand::rngs::StdRng;
use rand::seq::SliceRandom;
use rand::{Rng, SeedableRng};
use serde_json::{json, Value};

use super::stepper::{default_config, Lab, Op};
use super::*;
use crate::report::{Args, PropReport, Report};

pub const LAB_PROPS: [&str; 9] = ["C01", "C02", "C03", "C04", "C05", "C06", "C14", "C15", "C19"];

#[derive(Clone, Debug)]
pub struct Scenario {
    pub name: String,
    pub cfg: LabConfig,
    pub ops: Vec<Op>,
    pub fail_dials: Vec<usize>,
    pub fail_hs: Vec<usize>,
    /// (seed, steps) random continuation after `ops`
    pub random: Option<(u64, usize)>,
    pub max_reqs: usize,
    pub mix: (bool, bool),
    pub paused: bool,
    pub skip_probe: bool,
}

impl Scenario {
    pub fn new(name: &str, cfg: LabConfig, ops: Vec<Op>) -> Scenario {
        Scenario { name: name.into(), cfg, ops, fail_dials: vec![], fail_hs: vec![], random: None, max_reqs: 5, mix: (true, true), paused: false, skip_probe: false }
    }
    pub fn to_json(&self, applied: &[Op]) -> Value {
        json!({
            "engine": "poollab",
            "name": self.name,
            "cfg": self.cfg.to_json(),
            "ops": applied.iter().map(|o| o.to_json()).collect::<Vec<_>>(),
            "fail_dials": self.fail_dials,
            "fail_hs": self.fail_hs,
            "paused": self.paused,
            "skip_probe": self.skip_probe,
        })
    }
    pub fn from_json(v: &Value) -> Scenario {
        let mut s = Scenario::new(v["name"].as_str().unwrap_or("replay"), LabConfig::from_json(&v["cfg"]), v["ops"].as_array().map(|a| a.iter().filter_map(Op::from_json).collect()).unwrap_or_default());
        s.fail_dials = v["fail_dials"].as_array().map(|a| a.iter().filter_map(|x| x.as_u64().map(|x| x as usize)).collect()).unwrap_or_default();
        s.fail_hs = v["fail_hs"].as_array().map(|a| a.iter().filter_map(|x| x.as_u64().map(|x| x as usize)).collect()).unwrap_or_default();
        s.paused = v["paused"].as_bool().unwrap_or(false);
        s.skip_probe = v["skip_probe"].as_bool().unwrap_or(false);
        s
    }
}

pub struct Outcome {
    pub violations: Vec<Violation>,
    pub events: Vec<Event>,
    pub counters: BTreeMap<String, u64>,
    pub trace_hash: u64,
    pub states: BTreeSet<u64>,
    /// ops applied before the drain (replayable prefix)
    pub prefix: Vec<Op>,
    pub all_ops: usize,
    pub enabled_after_prefix: Vec<Op>,
    pub state_after_prefix: u64,
    pub summary: Value,
}

fn weight(op: &Op, lab: &Lab) -> u32 {
    let w = lock(&lab.world);
    match *op {
        Op::Issue { .. } => 10,
        Op::Poll(r) => {
            if w.reqs[r].polls == 0 {
                14
            } else {
                8
            }
        }
        Op::Cancel(_) => 3,
        Op::DialOk(_) => 10,
        Op::DialErr(_) => 2,
        Op::HsOk(_) => 10,
        Op::HsErr(_) => 2,
        Op::Respond(_) => 10,
        Op::RespondUpgrade(_) => 1,
        Op::BodyDone(_) => 10,
        Op::Close(_) => 2,
        Op::Bg => 12,
        Op::Sleep(_) => 0,
        Op::Advance(_) => 4,
    }
}

pub fn run_scenario(sc: &Scenario, record_events: bool) -> Outcome {
    let rt = tokio::runtime::Builder::new_current_thread().enable_time().start_paused(sc.paused).build().unwrap();
    let out = rt.block_on(async {
        let mut lab = Lab::new(sc.cfg.clone(), sc.paused);
        lock(&lab.world).record_events = record_events;
        for op in &sc.ops {
            lab.step(*op).await;
        }
        if let Some((seed, steps)) = sc.random {
            let mut rng = StdRng::seed_from_u64(seed);
            for _ in 0..steps {
                let en = lab.enabled(sc.max_reqs, sc.mix);
                let ws: Vec<u32> = en.iter().map(|o| weight(o, &lab)).collect();
                let total: u32 = ws.iter().sum();
                if total == 0 {
                    break;
                }
                let mut pick = rng.gen_range(0..total);
                let mut chosen = en[0];
                for (o, wt) in en.iter().zip(&ws) {
                    if pick < *wt {
                        chosen = *o;
                        break;
                    }
                    pick -= wt;
                }
                lab.step(chosen).await;
            }
        }
        let prefix = lab.applied.clone();
        let enabled_after_prefix = lab.enabled(sc.max_reqs, sc.mix);
        let state_after_prefix = lab.last_state();
        lab.drain(&sc.fail_dials, &sc.fail_hs).await;
        lab.account_abandoned();
        if !sc.skip_probe {
            lab.probe().await;
        }
        let w = lock(&lab.world);
        let summary = json!({
            "requests": w.reqs.iter().map(|r| format!("r{}:{}:{:?}{}", r.id, if r.h2 {"h2"} else {"h1"}, r.state, r.conn.map(|c| format!("@c{c}")).unwrap_or_default())).collect::<Vec<_>>(),
            "dials": w.dials.len(),
            "conns": w.conns.iter().map(|c| format!("c{}:{}:handoffs={}{}{}", c.id, if c.h2 {"h2"} else {"h1"}, c.handoffs, if c.closed_step.is_some() {":closed"} else {""}, if c.alive() {":alive"} else {""})).collect::<Vec<_>>(),
        });
        let out = Outcome {
            violations: w.violations.clone(),
            events: w.events.clone(),
            counters: w.counters.clone(),
            trace_hash: lab.trace_hash,
            states: lab.states_seen.clone(),
            prefix,
            all_ops: lab.applied.len(),
            enabled_after_prefix,
            state_after_prefix,
            summary,
        };
        drop(w);
        drop(lab);
        out
    });
    drop(rt);
    out
}

impl Lab {
    pub fn last_state(&self) -> u64 {
        // the abstract state after the last applied op is folded into trace_hash; recompute it cheaply
        crate::report::hash_of(&(self.abstract_key()))
    }
    fn abstract_key(&self) -> Vec<u64> {
        let w = lock(&self.world);
        let mut v = Vec::new();
        for r in &w.reqs {
            v.push(crate::report::hash_of(&(r.state, r.h2, r.polls.min(2), r.dial, r.respond.is_some(), r.responded, r.body_done, &r.origin, r.conn, r.must_use_idle, r.waits_on)));
        }
        for c in &w.conns {
            v.push(crate::report::hash_of(&(c.alive(), c.open(), c.h2, c.busy, c.holders, c.ready_reported_step >= c.released_step, c.upgraded, &c.origin, c.live_handles.min(4), c.to_idle_at_ready, c.handoffs.min(2))));
        }
        for d in &w.dials {
            v.push(crate::report::hash_of(&(d.res, d.completed, d.dropped_step.is_some(), d.abandoned_step.is_some(), d.first_poll_step.is_some(), d.hs.map(|x| (w.hss[x].res, w.hss[x].completed, w.hss[x].dropped_step.is_some())))));
        }
        v.push(self.last_pool_state);
        v
    }
}

// ---------------------------------------------------------------------------------------------
// templates
// ---------------------------------------------------------------------------------------------

pub fn origin(uri: &str) -> OriginCfg {
    OriginCfg { uri: uri.into(), alpn_h2: false }
}

/// full exchange of request `r` whose own dial is `d`: issue .. body done and handed back
fn exchange(o: usize, h2: bool, r: usize, d: usize) -> Vec<Op> {
    vec![Op::Issue { origin: o, h2 }, Op::Poll(r), Op::DialOk(d), Op::Poll(r), Op::HsOk(d), Op::Poll(r), Op::Respond(r), Op::Poll(r), Op::BodyDone(r), Op::Bg, Op::Bg]
}

pub fn templates(seed: u64, n_random_each: usize, steps: usize, key_table_1100: bool) -> Vec<Scenario> {
    let mut out = Vec::new();
    let mut rng = StdRng::seed_from_u64(seed);
    let cfgs = |rng: &mut StdRng| -> LabConfig {
        let mut c = default_config();
        c.continue_after_preemption = rng.gen_bool(0.5);
        c.max_idle_per_host = *[0usize, 1, 2, 32].choose(rng).unwrap();
        c.idle_timeout_ms = *[None, Some(0), Some(10_000)].choose(rng).unwrap();
        c.open_ignores_busy = rng.gen_bool(0.5);
        c.keep_completed_futures = rng.gen_bool(0.3);
        // (the protocol service stays ready at once here: the directed templates script every poll, an extra Pending
        // would shift them; the random walks and the templates T13 below vary it)
        c
    };
    let mut push = |name: &str, cfg: LabConfig, ops: Vec<Op>, rng: &mut StdRng, out: &mut Vec<Scenario>| {
        // the bare template, then the template followed by random continuations
        out.push(Scenario::new(name, cfg.clone(), ops.clone()));
        for _ in 0..n_random_each {
            let mut s = Scenario::new(name, cfg.clone(), ops.clone());
            s.random = Some((rng.gen(), steps));
            s.max_reqs = 6;
            if rng.gen_bool(0.3) {
                s.fail_dials = vec![rng.gen_range(0..4)];
            }
            if rng.gen_bool(0.2) {
                s.fail_hs = vec![rng.gen_range(0..4)];
            }
            out.push(s);
        }
    };
    for _variant in 0..4 {
        // T1: idle reuse
        let c = cfgs(&mut rng);
        let mut ops = exchange(0, false, 0, 0);
        ops.extend([Op::Issue { origin: 0, h2: false }, Op::Poll(1)]);
        push("idle-reuse-h1", c, ops, &mut rng, &mut out);

        // T2: h2 sharing: owner + two waiters
        let c = cfgs(&mut rng);
        let ops = vec![Op::Issue { origin: 0, h2: true }, Op::Issue { origin: 0, h2: true }, Op::Poll(0), Op::Poll(1), Op::Issue { origin: 0, h2: true }, Op::Poll(2), Op::DialOk(0), Op::Poll(0), Op::HsOk(0), Op::Poll(0), Op::Poll(1), Op::Poll(2)];
        push("h2-owner-and-waiters", c, ops, &mut rng, &mut out);

        // T3: waiter pre-empted by a released connection
        let c = cfgs(&mut rng);
        let mut ops = vec![Op::Issue { origin: 0, h2: false }, Op::Poll(0), Op::DialOk(0), Op::Poll(0), Op::HsOk(0), Op::Poll(0)];
        ops.extend([Op::Issue { origin: 0, h2: false }, Op::Poll(1), Op::Respond(0), Op::Poll(0), Op::BodyDone(0), Op::Bg, Op::Poll(1)]);
        push("waiter-takes-freed-connection", c, ops, &mut rng, &mut out);

        // T4: issue + cancel before the first poll while an idle connection exists
        let c = cfgs(&mut rng);
        let mut ops = exchange(0, false, 0, 0);
        ops.extend([Op::Issue { origin: 0, h2: false }, Op::Cancel(1), Op::Bg]);
        push("cancel-before-first-poll-with-idle", c, ops, &mut rng, &mut out);

        // T5: h2 owner fails / is cancelled while pure waiters exist
        let c = cfgs(&mut rng);
        let ops = vec![Op::Issue { origin: 0, h2: true }, Op::Poll(0), Op::Issue { origin: 0, h2: true }, Op::Poll(1), Op::DialErr(0), Op::Poll(0), Op::Bg];
        push("h2-owner-dial-fails-with-waiter", c, ops, &mut rng, &mut out);
        let c = cfgs(&mut rng);
        let ops = vec![Op::Issue { origin: 0, h2: true }, Op::Poll(0), Op::Issue { origin: 0, h2: true }, Op::Poll(1), Op::Cancel(0), Op::Bg];
        push("h2-owner-cancelled-with-waiter", c, ops, &mut rng, &mut out);
        let c = cfgs(&mut rng);
        let ops = vec![Op::Issue { origin: 0, h2: true }, Op::Poll(0), Op::Issue { origin: 0, h2: true }, Op::Poll(1), Op::DialOk(0), Op::Poll(0), Op::HsErr(0), Op::Poll(0), Op::Bg];
        push("h2-owner-handshake-fails-with-waiter", c, ops, &mut rng, &mut out);

        // T6: peer closes the connection in different states
        let c = cfgs(&mut rng);
        let mut ops = exchange(0, false, 0, 0);
        ops.extend([Op::Close(0), Op::Issue { origin: 0, h2: false }, Op::Poll(1)]);
        push("close-while-idle", c, ops, &mut rng, &mut out);
        let c = cfgs(&mut rng);
        let ops = vec![Op::Issue { origin: 0, h2: false }, Op::Poll(0), Op::DialOk(0), Op::Poll(0), Op::HsOk(0), Op::Poll(0), Op::Respond(0), Op::Poll(0), Op::Close(0), Op::Bg, Op::Issue { origin: 0, h2: false }, Op::Poll(1)];
        push("close-while-body-outstanding", c, ops, &mut rng, &mut out);
        let c = cfgs(&mut rng);
        let ops = vec![Op::Issue { origin: 0, h2: false }, Op::Poll(0), Op::DialOk(0), Op::Poll(0), Op::HsOk(0), Op::Poll(0), Op::Close(0), Op::Respond(0), Op::Poll(0), Op::BodyDone(0), Op::Bg, Op::Issue { origin: 0, h2: false }, Op::Poll(1)];
        push("close-while-held", c, ops, &mut rng, &mut out);
        let c = cfgs(&mut rng);
        let mut ops = vec![Op::Issue { origin: 0, h2: false }, Op::Poll(0), Op::DialOk(0), Op::Poll(0), Op::HsOk(0), Op::Poll(0)];
        ops.extend([Op::Issue { origin: 0, h2: false }, Op::Poll(1), Op::Respond(0), Op::Poll(0), Op::BodyDone(0), Op::Bg, Op::Close(0), Op::Poll(1)]);
        push("close-while-in-waiter-channel", c, ops, &mut rng, &mut out);

        // T6b: a response body left unread for longer than the idle timeout, then the next request (C02)
        for open_ignores_busy in [true, false] {
            let mut c = cfgs(&mut rng);
            c.idle_timeout_ms = Some(10_000);
            c.open_ignores_busy = open_ignores_busy;
            let ops = vec![
                Op::Issue { origin: 0, h2: false }, Op::Poll(0), Op::DialOk(0), Op::Poll(0), Op::HsOk(0), Op::Poll(0), Op::Respond(0), Op::Poll(0), Op::Bg,
                Op::Advance(10_001), Op::Bg, Op::Bg, Op::Issue { origin: 0, h2: false }, Op::Poll(1), Op::Bg, Op::Poll(1), Op::Advance(10_001), Op::Bg, Op::Poll(1),
            ];
            push("body-unread-past-idle-timeout", c, ops, &mut rng, &mut out);
            // virtual time: Advance moves the paused clock
            for s in out.iter_mut().rev().take(1 + n_random_each) {
                s.paused = true;
            }
        }

        // T7: upgrade takes the connection over
        let c = cfgs(&mut rng);
        let ops = vec![Op::Issue { origin: 0, h2: false }, Op::Poll(0), Op::DialOk(0), Op::Poll(0), Op::HsOk(0), Op::Poll(0), Op::RespondUpgrade(0), Op::Poll(0), Op::Bg, Op::Issue { origin: 0, h2: false }, Op::Poll(1)];
        push("upgrade-then-next-request", c, ops, &mut rng, &mut out);

        // T8: burst of k h1 requests then releases (C15)
        for k in [2usize, 3, 4] {
            let mut c = cfgs(&mut rng);
            c.max_idle_per_host = *[0usize, 1, 2, k - 1, k, k + 1].choose(&mut rng).unwrap();
            let mut ops = vec![];
            for r in 0..k {
                ops.extend([Op::Issue { origin: 0, h2: false }, Op::Poll(r), Op::DialOk(r), Op::Poll(r), Op::HsOk(r), Op::Poll(r)]);
            }
            let mut order: Vec<usize> = (0..k).collect();
            order.shuffle(&mut rng);
            for r in order {
                ops.extend([Op::Respond(r), Op::Poll(r), Op::BodyDone(r), Op::Bg]);
            }
            push(&format!("burst-{k}-then-release"), c, ops, &mut rng, &mut out);
        }

        // T8b: an un-polled request holds an idle connection while the freed slot is refilled, then it is cancelled (C15)
        for m in [1usize, 2] {
            let mut c = cfgs(&mut rng);
            c.max_idle_per_host = m;
            c.idle_timeout_ms = None;
            let mut ops = vec![];
            for r in 0..=m {
                ops.extend([Op::Issue { origin: 0, h2: false }, Op::Poll(r), Op::DialOk(r), Op::Poll(r), Op::HsOk(r), Op::Poll(r)]);
            }
            for r in 0..m {
                ops.extend([Op::Respond(r), Op::Poll(r), Op::BodyDone(r), Op::Bg]);
            }
            ops.push(Op::Issue { origin: 0, h2: false });
            ops.extend([Op::Respond(m), Op::Poll(m), Op::BodyDone(m), Op::Bg, Op::Bg, Op::Cancel(m + 1), Op::Bg]);
            push(&format!("unpolled-request-returns-idle-connection-to-full-list-{m}"), c, ops, &mut rng, &mut out);
        }

        // T8c: an un-polled request holds an idle connection that the peer closes; another request waits while it
        //      dials; then the un-polled request is dropped (C05: the closed connection must not reach the waiter)
        for close_first in [false, true] {
            let mut c = cfgs(&mut rng);
            c.max_idle_per_host = 32;
            c.idle_timeout_ms = None;
            let mut ops = exchange(0, false, 0, 0);
            if close_first {
                ops.extend([Op::Issue { origin: 0, h2: false }, Op::Close(0), Op::Issue { origin: 0, h2: false }, Op::Poll(2), Op::Cancel(1), Op::Bg, Op::Poll(2)]);
            } else {
                ops.extend([Op::Issue { origin: 0, h2: false }, Op::Issue { origin: 0, h2: false }, Op::Poll(2), Op::Close(0), Op::Cancel(1), Op::Bg, Op::Poll(2)]);
            }
            push("unpolled-request-holds-a-connection-the-peer-closes", c, ops, &mut rng, &mut out);
        }

        // T9: several origins at once (C06)
        let mut c = cfgs(&mut rng);
        c.origins = vec![origin("http://a.test"), origin("https://a.test"), origin("http://a.test:81"), origin("http://A.test"), origin("http://b.test"), origin("http://a.test:443"), origin("https://a.test:80"), origin("http://a.test:80"), origin("http://a.test@b.test"), origin("http://b.test@a.test"), origin("http://user:pw@a.test:81")];
        let mut ops = vec![];
        ops.extend(exchange(0, false, 0, 0));
        ops.extend(exchange(1, false, 1, 1));
        ops.extend([Op::Issue { origin: 2, h2: false }, Op::Poll(2), Op::Issue { origin: 3, h2: false }, Op::Poll(3), Op::Issue { origin: 4, h2: true }, Op::Poll(4)]);
        let mut s = Scenario::new("many-origins", c.clone(), ops.clone());
        s.max_reqs = 9;
        out.push(s);
        for _ in 0..n_random_each {
            let mut s = Scenario::new("many-origins", c.clone(), ops.clone());
            s.random = Some((rng.gen(), steps + 10));
            s.max_reqs = 10;
            out.push(s);
        }

        // T9b: more origins than any key-table housekeeping threshold, one of them with its only connection
        // checked out while the others come and go (C06)
        {
            let mut c = cfgs(&mut rng);
            let n_or = 70usize;
            c.origins = (0..n_or).map(|i| origin(&format!("http://h{i}.test"))).collect();
            let mut ops = vec![Op::Issue { origin: 0, h2: false }, Op::Poll(0), Op::DialOk(0), Op::Poll(0), Op::HsOk(0), Op::Poll(0)];
            for i in 1..(n_or - 2) {
                ops.extend([Op::Issue { origin: i, h2: false }, Op::Poll(i), Op::DialErr(i), Op::Poll(i)]);
            }
            let last = n_or - 2;
            ops.extend([Op::Issue { origin: last, h2: false }, Op::Poll(last), Op::Respond(0), Op::Poll(0), Op::BodyDone(0), Op::Bg, Op::Bg, Op::Poll(last), Op::Issue { origin: n_or - 1, h2: false }, Op::Poll(last + 1)]);
            let mut s = Scenario::new("key-table-pressure", c, ops);
            s.max_reqs = n_or + 2;
            out.push(s);
        }

        // T9c: the same with more origins than a four-digit bound (first variant only: it is the slow one)
        if _variant == 0 && key_table_1100 {
            let mut c = cfgs(&mut rng);
            c.max_idle_per_host = 1;
            c.idle_timeout_ms = None;
            let n_or = 1100usize;
            c.origins = (0..n_or).map(|i| origin(&format!("http://h{i}.test"))).collect();
            // origin 0: one idle connection; then every other origin is seen once (its dial fails); then origin 0 and the
            // low-numbered origins again
            let mut ops = exchange(0, false, 0, 0);
            for i in 1..(n_or - 1) {
                ops.extend([Op::Issue { origin: i, h2: false }, Op::Poll(i), Op::DialErr(i), Op::Poll(i)]);
            }
            let r = n_or - 1;
            ops.extend([Op::Issue { origin: n_or - 1, h2: false }, Op::Poll(r), Op::Issue { origin: 1, h2: false }, Op::Poll(r + 1), Op::Issue { origin: 2, h2: false }, Op::Poll(r + 2), Op::Issue { origin: 0, h2: false }, Op::Poll(r + 3)]);
            let mut s = Scenario::new("key-table-pressure-1100", c, ops);
            s.max_reqs = n_or + 6;
            out.push(s);
        }

        // T10: ALPN turns an HTTP/1.1 request's connection into HTTP/2
        let mut c = cfgs(&mut rng);
        c.origins = vec![OriginCfg { uri: "https://alpn.test".into(), alpn_h2: true }];
        let ops = vec![Op::Issue { origin: 0, h2: false }, Op::Issue { origin: 0, h2: false }, Op::Poll(0), Op::Poll(1), Op::DialOk(0), Op::Poll(0), Op::HsOk(0), Op::Poll(0), Op::Poll(1)];
        push("alpn-h2-for-h1-requests", c, ops, &mut rng, &mut out);

        // T11: no pool at all
        let mut c = cfgs(&mut rng);
        c.with_pool = false;
        let ops = exchange(0, false, 0, 0);
        push("without-pool", c, ops, &mut rng, &mut out);

        // T13: the protocol service is not ready when the transport has connected; the request is cancelled, or served
        //      by a released connection, exactly in that window (C14: the attempt must be continued / dropped as configured)
        for pending in [1u8, 2] {
            let mut c = cfgs(&mut rng);
            c.protocol_pending_polls = pending;
            let ops = vec![Op::Issue { origin: 0, h2: false }, Op::Poll(0), Op::DialOk(0), Op::Poll(0), Op::Cancel(0), Op::Bg, Op::Bg];
            push("cancel-while-protocol-not-ready", c, ops, &mut rng, &mut out);
            let mut c = cfgs(&mut rng);
            c.protocol_pending_polls = pending;
            c.max_idle_per_host = 32;
            // r0 is served (three polls get it past the protocol's readiness), r1 dials and is stuck before the handshake
            let mut ops = vec![Op::Issue { origin: 0, h2: false }, Op::Poll(0), Op::DialOk(0), Op::Poll(0), Op::Poll(0), Op::Poll(0), Op::HsOk(0), Op::Poll(0)];
            ops.extend([Op::Issue { origin: 0, h2: false }, Op::Poll(1), Op::DialOk(1), Op::Poll(1), Op::Respond(0), Op::Poll(0), Op::BodyDone(0), Op::Bg, Op::Bg, Op::Poll(1), Op::Bg]);
            push("preempted-while-protocol-not-ready", c, ops, &mut rng, &mut out);
        }

        // T12: cancel while own dial outstanding, with and without continuation
        let c = cfgs(&mut rng);
        let ops = vec![Op::Issue { origin: 0, h2: false }, Op::Poll(0), Op::Cancel(0), Op::Bg, Op::DialOk(0), Op::Bg, Op::HsOk(0), Op::Bg, Op::Bg];
        push("cancel-with-dial-outstanding", c, ops, &mut rng, &mut out);
    }
    out
}

pub fn random_walks(seed: u64, n: usize) -> Vec<Scenario> {
    let mut rng = StdRng::seed_from_u64(seed ^ 0x51ab);
    let mut out = Vec::with_capacity(n);
    for i in 0..n {
        let mut c = default_config();
        c.continue_after_preemption = rng.gen_bool(0.5);
        c.max_idle_per_host = *[0usize, 1, 2, 3, 32].choose(&mut rng).unwrap();
        c.idle_timeout_ms = *[None, Some(0), Some(10_000)].choose(&mut rng).unwrap();
        c.open_ignores_busy = rng.gen_bool(0.5);
        c.keep_completed_futures = rng.gen_bool(0.3);
        c.protocol_pending_polls = *[0u8, 0, 1, 2].choose(&mut rng).unwrap();
        match i % 6 {
            0 => {}
            5 => c.origins = vec![origin("http://a.test@b.test"), origin("http://a.test"), origin("http://b.test"), origin("http://user:pw@a.test"), origin("http://b.test@a.test"), origin("http://user:pw@a.test:8080"), origin("http://a.test:8080")],
            1 => c.origins = vec![origin("http://a.test"), origin("https://a.test"), origin("http://a.test:443"), origin("https://a.test:80")],
            2 => c.origins = vec![origin("http://a.test"), origin("http://a.test:81"), origin("http://b.test")],
            3 => c.origins = vec![OriginCfg { uri: "https://alpn.test".into(), alpn_h2: true }, origin("http://A.test"), origin("http://a.test")],
            _ => c.origins = vec![origin("ws://a.test"), origin("http://a.test"), origin("http://a.test:80"), origin("ws://a.test:443")],
        }
        let mut s = Scenario::new("random-walk", c, vec![]);
        s.random = Some((rng.gen(), rng.gen_range(10..60)));
        s.max_reqs = rng.gen_range(2..7);
        s.mix = match i % 3 {
            0 => (true, true),
            1 => (true, false),
            _ => (false, true),
        };
        if rng.gen_bool(0.3) {
            s.fail_dials = (0..rng.gen_range(1..3)).map(|_| rng.gen_range(0..5)).collect();
        }
        if rng.gen_bool(0.2) {
            s.fail_hs = vec![rng.gen_range(0..5)];
        }
        out.push(s);
    }
    out
}

/// idle-expiry scenarios (real sleeps, C05/C04-R1 one-sided)
pub fn expiry_scenarios(seed: u64, n: usize) -> Vec<Scenario> {
    let mut rng = StdRng::seed_from_u64(seed ^ 0xe9);
    let mut out = Vec::new();
    // directed: connections of different idle age, the newer ones closed by the peer, so that the pool has to look
    // past a closed entry at an older (expired or still fresh) one
    for k in [2usize, 3] {
        for (old_gap, fresh_wait) in [(130u64, 0u64), (130, 10), (0, 10), (20, 0)] {
            for close_newest in [1usize, 2] {
                for timeout in [Some(60u64), Some(0), None] {
                    let mut c = default_config();
                    c.idle_timeout_ms = timeout;
                    c.max_idle_per_host = 8;
                    let mut ops = vec![];
                    for r in 0..k {
                        ops.extend([Op::Issue { origin: 0, h2: false }, Op::Poll(r), Op::DialOk(r), Op::Poll(r), Op::HsOk(r), Op::Poll(r)]);
                    }
                    // the first connection becomes idle long before the others
                    ops.extend([Op::Respond(0), Op::Poll(0), Op::BodyDone(0), Op::Bg, Op::Bg]);
                    if old_gap > 0 {
                        ops.push(Op::Sleep(old_gap));
                    }
                    for r in 1..k {
                        ops.extend([Op::Respond(r), Op::Poll(r), Op::BodyDone(r), Op::Bg, Op::Bg]);
                    }
                    if fresh_wait > 0 {
                        ops.push(Op::Sleep(fresh_wait));
                    }
                    for j in 0..close_newest.min(k - 1) {
                        ops.push(Op::Close(k - 1 - j));
                    }
                    ops.extend([Op::Issue { origin: 0, h2: false }, Op::Poll(k), Op::Issue { origin: 0, h2: false }, Op::Poll(k + 1)]);
                    let mut s = Scenario::new("idle-expiry-directed", c, ops);
                    s.max_reqs = k + 3;
                    out.push(s);
                }
            }
        }
    }
    // HTTP/2: the shared connection expires when it is unused for longer than the timeout (C05), and it does not
    // expire while it is used with gaps shorter than the timeout, however long ago it was created (C04)
    for timeout in [Some(60u64), Some(0), None] {
        for gap in [0u64, 130] {
            for cont in [true, false] {
                let mut c = default_config();
                c.idle_timeout_ms = timeout;
                c.continue_after_preemption = cont;
                let mut ops = vec![Op::Issue { origin: 0, h2: true }, Op::Poll(0), Op::DialOk(0), Op::Poll(0), Op::HsOk(0), Op::Poll(0), Op::Respond(0), Op::Poll(0), Op::Bg];
                if gap > 0 {
                    ops.push(Op::Sleep(gap));
                }
                ops.extend([Op::Issue { origin: 0, h2: true }, Op::Poll(1), Op::Bg, Op::Issue { origin: 0, h2: true }, Op::Poll(2)]);
                let mut s = Scenario::new("h2-idle-expiry", c, ops);
                s.max_reqs = 4;
                out.push(s);
            }
        }
    }
    // C15 with a clock: the idle list is full, its entries expire while other requests are still in flight, then those
    // are released: expired-but-retained connections still count
    for max in [1usize, 2] {
        for extra in [1usize, 2] {
            let mut c = default_config();
            c.idle_timeout_ms = Some(60);
            c.max_idle_per_host = max;
            let k = max + extra;
            let mut ops = vec![];
            for r in 0..k {
                ops.extend([Op::Issue { origin: 0, h2: false }, Op::Poll(r), Op::DialOk(r), Op::Poll(r), Op::HsOk(r), Op::Poll(r)]);
            }
            for r in 0..max {
                ops.extend([Op::Respond(r), Op::Poll(r), Op::BodyDone(r), Op::Bg, Op::Bg]);
            }
            ops.push(Op::Sleep(130));
            for r in max..k {
                ops.extend([Op::Respond(r), Op::Poll(r), Op::BodyDone(r), Op::Bg, Op::Bg]);
            }
            let mut s = Scenario::new("idle-list-full-then-expired-then-more-releases", c, ops);
            s.max_reqs = k + 2;
            out.push(s);
        }
    }
    for (timeout, gap, rounds) in [(200u64, 40u64, 8usize), (150, 30, 8)] {
        let mut c = default_config();
        c.idle_timeout_ms = Some(timeout);
        let mut ops = vec![Op::Issue { origin: 0, h2: true }, Op::Poll(0), Op::DialOk(0), Op::Poll(0), Op::HsOk(0), Op::Poll(0), Op::Respond(0), Op::Poll(0), Op::Bg];
        for r in 1..=rounds {
            ops.extend([Op::Sleep(gap), Op::Issue { origin: 0, h2: true }, Op::Poll(r), Op::Respond(r), Op::Poll(r), Op::Bg]);
        }
        let mut s = Scenario::new("h2-kept-alive-by-use", c, ops);
        s.max_reqs = rounds + 2;
        out.push(s);
    }
    for i in 0..n {
        let mut c = default_config();
        let timeout = 60u64;
        c.idle_timeout_ms = *[Some(timeout), Some(timeout), Some(0), None].choose(&mut rng).unwrap();
        c.max_idle_per_host = 8;
        // k connections become idle at different ages, then a request arrives
        let k = rng.gen_range(1..4usize);
        let mut ops = vec![];
        for r in 0..k {
            ops.extend([Op::Issue { origin: 0, h2: false }, Op::Poll(r), Op::DialOk(r), Op::Poll(r), Op::HsOk(r), Op::Poll(r)]);
        }
        for r in 0..k {
            ops.extend([Op::Respond(r), Op::Poll(r), Op::BodyDone(r), Op::Bg, Op::Bg]);
            let gap = *[0u64, 5, 20, 50, 110].choose(&mut rng).unwrap();
            if gap > 0 {
                ops.push(Op::Sleep(gap));
            }
        }
        let wait = *[0u64, 10, 100, 130][..].choose(&mut rng).unwrap();
        if wait > 0 {
            ops.push(Op::Sleep(wait));
        }
        if i % 3 == 0 {
            ops.push(Op::Close(rng.gen_range(0..k)));
        }
        ops.extend([Op::Issue { origin: 0, h2: false }, Op::Poll(k), Op::Issue { origin: 0, h2: false }, Op::Poll(k + 1)]);
        let mut s = Scenario::new("idle-expiry", c, ops);
        s.max_reqs = k + 3;
        out.push(s);
    }
    out
}

/// timeout-layer scenarios (virtual time, C19)
pub fn timeout_scenarios(seed: u64, n_random: usize) -> Vec<Scenario> {
    let mut rng = StdRng::seed_from_u64(seed ^ 0x7103);
    let mut out = Vec::new();
    for d in [0u64, 1, 50, 10_000] {
        for cont in [true, false] {
            let mut c = default_config();
            c.continue_after_preemption = cont;
            c.timeout_layer_ms = Some(d);
            let mk = |name: &str, ops: Vec<Op>| {
                let mut s = Scenario::new(name, c.clone(), ops);
                s.paused = true;
                s
            };
            let before = d.saturating_sub(1);
            // stage: waiting for own dial
            out.push(mk("timeout-waiting-for-own-dial", vec![Op::Issue { origin: 0, h2: false }, Op::Poll(0), Op::Advance(d), Op::Poll(0)]));
            out.push(mk("timeout-never-polled-before-deadline", vec![Op::Issue { origin: 0, h2: false }, Op::Advance(d), Op::Poll(0)]));
            // stage: pure waiter on another request's HTTP/2 attempt
            out.push(mk("timeout-pure-waiter", vec![Op::Issue { origin: 0, h2: true }, Op::Poll(0), Op::Issue { origin: 0, h2: true }, Op::Poll(1), Op::Advance(d), Op::Poll(1), Op::Poll(0)]));
            // stage: handshaking
            out.push(mk("timeout-handshaking", vec![Op::Issue { origin: 0, h2: false }, Op::Poll(0), Op::DialOk(0), Op::Poll(0), Op::Advance(d), Op::Poll(0)]));
            // stage: sent, awaiting the response head
            let sent = vec![Op::Issue { origin: 0, h2: false }, Op::Poll(0), Op::DialOk(0), Op::Poll(0), Op::HsOk(0), Op::Poll(0)];
            let mut o = sent.clone();
            o.extend([Op::Advance(d), Op::Poll(0)]);
            out.push(mk("timeout-awaiting-response", o));
            // inner resolves strictly before the deadline, polled after it
            let mut o = sent.clone();
            o.extend([Op::Advance(before), Op::Respond(0), Op::Advance(5), Op::Poll(0)]);
            out.push(mk("inner-before-deadline-polled-late", o));
            // inner resolves exactly at / after the deadline
            let mut o = sent.clone();
            o.extend([Op::Advance(d), Op::Respond(0), Op::Poll(0)]);
            out.push(mk("inner-at-deadline", o));
            let mut o = sent.clone();
            o.extend([Op::Advance(d + 3), Op::Respond(0), Op::Poll(0)]);
            out.push(mk("inner-after-deadline", o));
            // HTTP/2 owner times out while a waiter (with a longer life) depends on it
            out.push(mk("timeout-owner-with-waiter", vec![Op::Issue { origin: 0, h2: true }, Op::Poll(0), Op::Advance(d / 2 + 1), Op::Issue { origin: 0, h2: true }, Op::Poll(1), Op::Advance(d / 2 + 1), Op::Poll(0), Op::Poll(1)]));
            for _ in 0..n_random {
                let mut s = mk("timeout-random-walk", vec![]);
                s.random = Some((rng.gen(), rng.gen_range(8..40)));
                s.max_reqs = rng.gen_range(1..5);
                if rng.gen_bool(0.3) {
                    s.fail_dials = vec![rng.gen_range(0..3)];
                }
                out.push(s);
            }
        }
    }
    out
}

// ---------------------------------------------------------------------------------------------
// engine
// ---------------------------------------------------------------------------------------------

fn rule(prop: &str) -> &'static str {
    match prop {
        "C01" => "PoolLab part: real ConnectionPoolService over harness transport/protocol/connection/inner service; scenarios = templates + seeded random walks (10-60 ops over issue/poll/cancel/dial ok|err/handshake ok|err/respond/upgrade/body-done/close/background) + bounded-exhaustive BFS, each followed by drain and probe; oracle: request reaches the inner service once, unchanged, in a live state; response is the one produced for it; Err only with a failed attempt it depended on; non-trivial = a request finished; distinct by abstract event-trace hash",
        "C02" => "PoolLab hand-off monitor: at every hand-off of an HTTP/1 connection the harness connection's holders / busy / ready-since-release / upgraded shadow state is asserted; non-trivial = scenario with >= 2 hand-offs; distinct by abstract event-trace hash",
        "C03" => "PoolLab drain oracle: after all attempts terminated and background work ran to quiescence every non-cancelled request must be resolved, no request progresses without a wake-up, and a fresh probe per origin completes; non-trivial = >= 2 requests with a cancel, failed dial/handshake or pure waiter; distinct by abstract event-trace hash",
        "C04" => "PoolLab dial monitor: rules R1 (idle-available => no dial, served by it), R2 (no second HTTP/2 dial while an attempt is in flight), R3 (no dial while an HTTP/2 connection exists), R4 (one dial per request), R5 (cancel without connection destroys nothing / starts no dial); non-trivial = issue with idle available, pure waiter, or cancel; distinct by abstract event-trace hash",
        "C05" => "PoolLab hand-off monitor: closed-before-issue / closed-before-hand-back hand-offs, and (real sleeps, one-sided 30 ms margins) hand-off of a connection idle longer than idle_timeout; non-trivial = a Close op or sleep occurred; distinct by abstract event-trace hash",
        "C06" => "PoolLab hand-off monitor: normalised (scheme, authority) of the dialed URI vs the request URI at every hand-off over origin sets differing in scheme/port/host/case; non-trivial = >= 2 origins and >= 2 hand-offs; distinct by abstract event-trace hash",
        "C14" => "PoolLab: freed HTTP/1 connection must be taken by the head waiter at its next poll; abandoned attempts complete in background and stay pooled (continue_after_preemption) or are dropped at once and leave nothing; non-trivial = a freed connection was offered to a waiter, a pre-emption, or a cancel with outstanding dial; distinct by abstract event-trace hash",
        "C19" => "PoolLab with the public TimeoutLayer around ConnectionPoolService under the paused tokio clock: durations {0,1,50,10000} ms x both pre-emption settings x stage at expiry (not yet polled, own dial, waiting on another attempt, handshaking, awaiting response) + seeded random walks with Advance ops; oracle at every poll: pending at/after the deadline, timeout before the deadline, timeout although the inner result was ready before the deadline, missing wake-up at the deadline, hand-off after expiry; followed by drain and probe; non-trivial = a timeout fired or an inner result passed through; distinct by abstract event-trace hash",
        "C15" => "PoolLab: hook snapshot of idle-list lengths after every step <= max_idle_per_host, plus boundary count of released/ready/open connections nobody waits for; non-trivial = >= 2 hand-offs; distinct by abstract event-trace hash",
        _ => "PoolLab",
    }
}

fn relevant(prop: &str, o: &Outcome) -> bool {
    let c = |k: &str| o.counters.get(k).copied().unwrap_or(0);
    match prop {
        "C01" => c("requests_ok") + c("requests_err") > 0,
        "C02" | "C15" => c("handoffs") >= 2,
        "C03" => c("issued_h1") + c("issued_h2") >= 2 && (c("cancel_before_first_poll") + c("cancel_during_checkout") + c("cancel_after_handoff") + c("issue_h2_pure_waiter") > 0 || o.prefix.iter().any(|op| matches!(op, Op::DialErr(_) | Op::HsErr(_)))),
        "C04" => c("issue_with_idle_available") + c("issue_h2_pure_waiter") + c("cancel_before_first_poll") + c("cancel_during_checkout") > 0,
        "C05" => c("close_while_held") + c("close_while_body_outstanding") + c("close_while_idle_or_queued") + c("close_other") > 0 || o.prefix.iter().any(|op| matches!(op, Op::Sleep(_))),
        "C06" => c("handoffs") >= 2,
        "C19" => c("timeouts") + c("c19_inner_ok_passed_through") + c("c19_inner_error_passed_through") > 0,
        "C14" => c("c14_freed_connection_offered_to_waiters") + c("preemptions") + c("cancels_with_outstanding_dial") > 0,
        _ => true,
    }
}

pub fn fold(rep: &mut Report, args: &Args, sc: &Scenario, o: &Outcome) {
    for prop in LAB_PROPS {
        if !args.wants(prop) || (prop == "C19") != sc.cfg.timeout_layer_ms.is_some() {
            continue;
        }
        if prop == "C06" && sc.cfg.origins.len() < 2 {
            continue;
        }
        let p = rep.prop(prop, rule(prop));
        let rel = relevant(prop, o);
        p.eval(if rel { Some(o.trace_hash) } else { None });
        for (k, v) in &o.counters {
            p.count(k, *v);
        }
        p.count("steps_executed", o.all_ops as u64);
        p.count(&format!("scenarios_{}", sc.name.split('-').next().unwrap_or("x")), 1);
        // in timeout scenarios the follow-up obligations of C19 are observed by the C01/C03 monitors
        let follow_up = |v: &&Violation| prop == "C19" && (v.signature.starts_with("probe-not-served") || v.signature.starts_with("handoff:request-in-state") || v.signature.starts_with("stranded"));
        for v in o.violations.iter().filter(|v| v.prop == prop || follow_up(v)) {
            p.violation(v.signature.clone(), format!("{} | scenario '{}' prefix: {}", v.message, sc.name, o.prefix.iter().map(|x| x.short()).collect::<Vec<_>>().join(" ")), sc.to_json(&o.prefix));
        }
        if rel && p.samples.len() < 4 && (o.trace_hash % 97 == 0 || p.samples.is_empty()) {
            p.sample(json!({"scenario": sc.name, "cfg": sc.cfg.to_json(), "ops_before_drain": o.prefix.iter().map(|x| x.short()).collect::<Vec<_>>(), "total_ops_with_drain_and_probe": o.all_ops, "end_state": o.summary}));
        }
    }
}

/// bounded-exhaustive exploration: BFS over op sequences, pruning on the abstract state after the prefix
pub fn exhaustive(args: &Args, cfg: LabConfig, max_reqs: usize, mix: (bool, bool), depth: usize, max_nodes: usize, rep: &mut Report) {
    let mut frontier: Vec<Vec<Op>> = vec![vec![]];
    let mut seen: HashSet<u64> = HashSet::new();
    let mut nodes = 0usize;
    for _level in 0..=depth {
        if frontier.is_empty() || nodes >= max_nodes {
            break;
        }
        let results: std::sync::Mutex<Vec<(Vec<Op>, Vec<Op>, u64)>> = std::sync::Mutex::new(Vec::new());
        let fr = &frontier;
        let part = crate::report::parallel(args.threads, fr.len() as u64, "poollab", |i, r| {
            let mut sc = Scenario::new("exhaustive", cfg.clone(), fr[i as usize].clone());
            sc.max_reqs = max_reqs;
            sc.mix = mix;
            let o = run_scenario(&sc, false);
            fold(r, args, &sc, &o);
            results.lock().unwrap().push((o.prefix.clone(), o.enabled_after_prefix.clone(), o.state_after_prefix));
        });
        rep.merge(part);
        nodes += frontier.len();
        let mut res = results.into_inner().unwrap();
        res.sort_by(|a, b| a.0.iter().map(|o| o.short()).collect::<Vec<_>>().cmp(&b.0.iter().map(|o| o.short()).collect::<Vec<_>>()));
        let mut next = Vec::new();
        for (prefix, enabled, state) in res {
            if !seen.insert(state) {
                continue;
            }
            for op in enabled {
                // Bg twice in a row with nothing in between is covered by the drain
                let mut p = prefix.clone();
                p.push(op);
                next.push(p);
            }
        }
        if nodes + next.len() > max_nodes {
            next.truncate(max_nodes.saturating_sub(nodes));
        }
        frontier = next;
    }
    for prop in LAB_PROPS {
        if let Some(p) = rep.props.get_mut(prop) {
            p.count("exhaustive_nodes", nodes as u64);
            p.count("exhaustive_distinct_abstract_states", seen.len() as u64);
        }
    }
}

/// greedy delta-debugging of a witness: drop ops while the same signature is still reported
pub fn shrink(sc: &Scenario, prop: &str, signature: &str) -> (Scenario, Outcome) {
    let mut best = sc.clone();
    best.random = None;
    let has = |o: &Outcome| o.violations.iter().any(|v| v.prop == prop && v.signature == signature);
    let mut best_out = run_scenario(&best, false);
    if !has(&best_out) {
        return (best, best_out);
    }
    let mut budget = 1500;
    let mut chunk = (best.ops.len() / 2).max(1);
    while chunk >= 1 && budget > 0 {
        let mut i = 0;
        let mut progressed = false;
        while i < best.ops.len() && budget > 0 {
            let mut cand = best.clone();
            let hi = (i + chunk).min(cand.ops.len());
            cand.ops.drain(i..hi);
            budget -= 1;
            let o = run_scenario(&cand, false);
            if has(&o) {
                best = cand;
                best_out = o;
                progressed = true;
            } else {
                i += chunk;
            }
        }
        if chunk == 1 && !progressed {
            break;
        }
        if !progressed || chunk > 1 {
            chunk = if chunk > 1 { chunk / 2 } else { 1 };
        }
    }
    // try dropping the fault script too
    for which in 0..2 {
        let mut cand = best.clone();
        if which == 0 {
            cand.fail_dials.clear();
        } else {
            cand.fail_hs.clear();
        }
        let o = run_scenario(&cand, false);
        if has(&o) {
            best = cand;
            best_out = o;
        }
    }
    (best, best_out)
}

fn shrink_witnesses(rep: &mut Report) {
    for (prop, p) in rep.props.iter_mut() {
        let mut done: HashSet<String> = HashSet::new();
        for v in p.violations.iter_mut() {
            if !done.insert(v.signature.clone()) {
                continue;
            }
            let sc = Scenario::from_json(&v.replay);
            let (small, out) = shrink(&sc, prop, &v.signature);
            if let Some(w) = out.violations.iter().find(|x| x.prop == prop.as_str() && x.signature == v.signature) {
                v.message = format!("{} | minimised witness: cfg {} ops: {} (+drain{})", w.message, small.cfg.to_json(), small.ops.iter().map(|x| x.short()).collect::<Vec<_>>().join(" "), if small.skip_probe { "" } else { "+probe" });
                v.replay = small.to_json(&small.ops);
            }
        }
    }
}

pub fn run(args: &Args) -> Report {
    let mut rep = Report::new("poollab");
    if let Some(path) = &args.replay {
        let v: Value = serde_json::from_str(&std::fs::read_to_string(path).unwrap()).unwrap();
        let sc = Scenario::from_json(&v["replay"]);
        let o = run_scenario(&sc, true);
        for e in &o.events {
            println!("[{:>3}] {}", e.step, e.what);
        }
        fold(&mut rep, args, &sc, &o);
        return rep;
    }
    let thorough = args.tier_thorough;
    let mut scs = templates(args.seed, if thorough { 120 } else { 12 }, 25, args.wants("C06") || args.wants("C15"));
    scs.extend(random_walks(args.seed, if thorough { 400_000 } else { 30_000 }));
    let n = scs.len() as u64;
    let scs_ref = &scs;
    let part = crate::report::parallel(args.threads, n, "poollab", |i, r| {
        let sc = &scs_ref[i as usize];
        let o = run_scenario(sc, false);
        fold(r, args, sc, &o);
    });
    rep.merge(part);

    // idle expiry (real time): only for the properties that need it
    if args.wants("C05") || args.wants("C04") || args.wants("C15") {
        let ex = expiry_scenarios(args.seed, if thorough { 3200 } else { 320 });
        let exr = &ex;
        let part = crate::report::parallel(args.threads, ex.len() as u64, "poollab", |i, r| {
            let sc = &exr[i as usize];
            let o = run_scenario(sc, false);
            fold(r, args, sc, &o);
        });
        rep.merge(part);
    }

    if args.wants("C19") {
        let ts = timeout_scenarios(args.seed, if thorough { 20_000 } else { 1_500 });
        let tsr = &ts;
        let part = crate::report::parallel(args.threads, ts.len() as u64, "poollab", |i, r| {
            let sc = &tsr[i as usize];
            let o = run_scenario(sc, false);
            fold(r, args, sc, &o);
        });
        rep.merge(part);
    }

    // bounded exhaustive
    let (depth, nodes) = if thorough { (9, 400_000) } else { (6, 12_000) };
    for cont in [true, false] {
        for mix in [(true, false), (false, true), (true, true)] {
            let mut cfg = default_config();
            cfg.continue_after_preemption = cont;
            cfg.max_idle_per_host = 1;
            cfg.open_ignores_busy = cont;
            exhaustive(args, cfg, if mix == (true, true) { 2 } else { 3 }, mix, depth, nodes / 6, &mut rep);
        }
    }
    for prop in LAB_PROPS {
        if let Some(p) = rep.props.get_mut(prop) {
            p.assume("LabConn mirrors HttpConnection: can_share <=> h2, is_open <=> open and (h2 or no exchange in flight), poll_ready pending while an HTTP/1 response body is outstanding; an HTTP/1 exchange dropped mid-flight closes the connection");
            p.assume("one op is atomic with respect to pool background tasks (current_thread runtime; tasks run only at Bg)");
            p.exhaustive = Some(false);
        }
    }
    shrink_witnesses(&mut rep);
    rep
}
