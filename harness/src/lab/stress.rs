//! Real-thread stress of the pool with the Lab objects in auto mode (dials, handshakes, responses and bodies
//! resolve by themselves after random yields; scheduling noise is injected at the harness objects'
//! suspension points, never inside the pool's lock). Safety monitors only: C02, C05 (closed before issue),
//! C06, C15 (hook snapshot, sampled concurrently), C04-R4, C01 pool part.

use std::sync::atomic::{AtomicBool, AtomicU64, Ordering};
use std::sync::Arc;
use std::time::{Duration, Instant};

use http::{Request, Version};
use hyperdriver::client::pool::Config as PoolConfig;
use hyperdriver::client::ConnectionPoolService;
use hyperdriver::Body;
use rand::rngs::StdRng;
use rand::{Rng, SeedableRng};
use serde_json::json;
use tower::ServiceExt;

use super::monitors;
use super::stepper::default_config;
use super::*;
use crate::e2e::traffic::CancelAfter;
use crate::report::{hash_of, Args, Report};

const RULE: &str = "real-thread stress: the real pool with Lab objects in auto mode on a multi_thread runtime (4-12 workers), 32-256 concurrent request tasks over 1-4 origins (HTTP/1.1 and HTTP/2 mixed), random cancellation points, random peer closes, failing dials/handshakes, injected yields/sleeps at the harness objects' suspension points; hand-off monitors under one harness mutex; idle-list hook snapshot sampled concurrently; non-trivial = every run; distinct by (config, seed)";

pub fn run_one(seed: u64, thorough: bool) -> (Vec<Violation>, std::collections::BTreeMap<String, u64>, bool, serde_json::Value) {
    let mut rng = StdRng::seed_from_u64(seed);
    let mut cfg = default_config();
    cfg.continue_after_preemption = rng.gen_bool(0.5);
    cfg.max_idle_per_host = [0usize, 1, 2, 4, 32][rng.gen_range(0..5)];
    cfg.idle_timeout_ms = [None, Some(0), Some(10_000)][rng.gen_range(0..3)];
    cfg.open_ignores_busy = rng.gen_bool(0.5);
    let n_orig = rng.gen_range(1..=4);
    cfg.origins = (0..n_orig).map(|i| OriginCfg { uri: ["http://a.test", "http://a.test:443", "https://a.test", "http://b.test"][i].to_string(), alpn_h2: false }).collect();
    let workers = [4usize, 8, 12][rng.gen_range(0..3)];
    let tasks = if thorough { rng.gen_range(64..256) } else { rng.gen_range(48..160) };
    let per_task = rng.gen_range(5..20);
    let h2_pct = [0u32, 0, 40][rng.gen_range(0..3)];
    let cancel_pct = [0u32, 10, 30][rng.gen_range(0..3)];
    let desc = json!({"engine": "poolstress", "seed": seed, "cfg": cfg.to_json(), "workers": workers, "tasks": tasks, "per_task": per_task, "cancel_pct": cancel_pct, "h2_pct": h2_pct});

    let world: Shared = Arc::new(Mutex::new(World::new(cfg.clone())));
    {
        let mut w = lock(&world);
        w.record_events = false;
        w.jitter = 40;
        w.auto = Some(AutoCfg { fail_dial_pct: [0u32, 5, 20][rng.gen_range(0..3)], fail_hs_pct: [0u32, 5][rng.gen_range(0..2)], max_yields: 3 });
    }
    let mut pc = PoolConfig::default();
    pc.continue_after_preemption = cfg.continue_after_preemption;
    pc.idle_timeout = cfg.idle_timeout_ms.map(Duration::from_millis);
    pc.max_idle_per_host = cfg.max_idle_per_host;
    let svc: ConnectionPoolService<LabTransport, LabProtocol, LabInner, Body> = ConnectionPoolService::new(LabTransport { world: world.clone() }, LabProtocol::new(world.clone()), LabInner { world: world.clone() }, pc);

    let rt = tokio::runtime::Builder::new_multi_thread().worker_threads(workers).enable_all().build().unwrap();
    let done = Arc::new(AtomicBool::new(false));
    let next_req = Arc::new(AtomicU64::new(0));
    let t0 = Instant::now();
    let hang = rt.block_on(async {
        // chaos: peers close connections that have served at least one request
        let wd = world.clone();
        let dn = done.clone();
        let chaos_seed = seed ^ 0xc4a05;
        let chaos = tokio::spawn(async move {
            let mut rng = StdRng::seed_from_u64(chaos_seed);
            while !dn.load(Ordering::SeqCst) {
                tokio::time::sleep(Duration::from_micros(rng.gen_range(50..600))).await;
                let wk = {
                    let mut w = lock(&wd);
                    let cands: Vec<usize> = w.conns.iter().filter(|c| c.alive() && c.closed_step.is_none() && c.handoffs > 0).map(|c| c.id).collect();
                    if cands.is_empty() || rng.gen_range(0..4) != 0 {
                        None
                    } else {
                        let c = cands[rng.gen_range(0..cands.len())];
                        let step = w.tick();
                        w.conns[c].closed_step = Some(step);
                        w.conns[c].closed_instant = Some(Instant::now());
                        w.count("chaos_closes");
                        w.conns[c].ready_waker.take()
                    }
                };
                if let Some(wk) = wk {
                    wk.wake();
                }
            }
        });
        // C15: sample the pool's own idle-list lengths while everything runs
        let snap_svc = svc.clone();
        let wd = world.clone();
        let dn = done.clone();
        let sampler = tokio::spawn(async move {
            let mut n = 0u64;
            while !dn.load(Ordering::SeqCst) {
                let snap = snap_svc.verif_pool_snapshot();
                {
                    let mut w = lock(&wd);
                    let max = w.cfg.max_idle_per_host;
                    for e in &snap {
                        if e.idle > max {
                            w.violate("C15", "idle-list-exceeds-max-idle-per-host", format!("pool retains {} idle connections for {} with max_idle_per_host={max} (sampled under load)", e.idle, e.key));
                        }
                    }
                }
                n += 1;
                tokio::time::sleep(Duration::from_micros(200)).await;
            }
            n
        });
        let mut handles = Vec::new();
        for t in 0..tasks {
            let svc = svc.clone();
            let world = world.clone();
            let next_req = next_req.clone();
            let mut rng = StdRng::seed_from_u64(seed.wrapping_mul(31).wrapping_add(t as u64));
            let origins = cfg.origins.clone();
            handles.push(tokio::spawn(async move {
                for _ in 0..per_task {
                    let o = rng.gen_range(0..origins.len());
                    let h2 = rng.gen_range(0..100) < h2_pct;
                    let _ = next_req.fetch_add(1, Ordering::SeqCst);
                    let (rid, req) = {
                        let mut w = lock(&world);
                        let rid = w.reqs.len();
                        let uri: http::Uri = format!("{}/r{rid}", origins[o].uri).parse().unwrap();
                        let step = w.tick();
                        w.reqs.push(ReqRec {
                            id: rid, uri: uri.to_string(), origin: origin_of(&uri), h2, probe: false, issued_step: step, issued_instant: Instant::now(), prev_activity: None, offered_since_poll: vec![], state: ReqState::Checkout,
                            dial: None, conn: None, handoff_step: None, handoffs: 0, responded: false, body_done: false, upgrade: false, cancelled_step: None, finished_step: None,
                            error: None, polls: 0, resp_waker: None, respond: None, avail_at_issue: vec![], must_use_idle: false, waits_on: None, is_owner: false,
                            timeout_ms: None, issued_vtime_ms: 0, finished_vtime_ms: None, respond_vtime_ms: None,
                        });
                        w.count(if h2 { "issued_h2" } else { "issued_h1" });
                        let req = Request::builder().uri(uri).version(if h2 { Version::HTTP_2 } else { Version::HTTP_11 }).header(REQ_HEADER, rid).body(Body::empty()).unwrap();
                        (rid, req)
                    };
                    let cancel = rng.gen_range(0..100) < cancel_pct;
                    let after = if cancel { rng.gen_range(0..10u32) } else { u32::MAX };
                    let fut = svc.clone().oneshot(req);
                    let r = CancelAfter::new(fut, after).await;
                    {
                    let mut w = lock(&world);
                    w.tick();
                    match r {
                        None => {
                            w.reqs[rid].state = ReqState::Cancelled;
                            w.count("requests_cancelled");
                        }
                        Some(Ok(resp)) => {
                            let got = resp.headers().get(REQ_HEADER).and_then(|v| v.to_str().ok()).and_then(|s| s.parse::<usize>().ok());
                            if got != Some(rid) {
                                w.violate("C01", "response-for-another-request", format!("r{rid} received the response produced for {got:?}"));
                            }
                            w.reqs[rid].state = ReqState::Done;
                            w.count("requests_ok");
                        }
                        Some(Err(e)) => {
                            w.reqs[rid].state = ReqState::Failed;
                            w.reqs[rid].error = Some(format!("{e:?}"));
                            w.count("requests_err");
                        }
                    }
                    }
                    if rng.gen_bool(0.3) {
                        tokio::task::yield_now().await;
                    }
                }
            }));
        }
        let all = async {
            for h in handles {
                let _ = h.await;
            }
        };
        let hang = tokio::time::timeout(Duration::from_secs(90), all).await.is_err();
        done.store(true, Ordering::SeqCst);
        let _ = chaos.await;
        let samples = sampler.await.unwrap_or(0);
        lock(&world).counters.insert("c15_snapshots_under_load".into(), samples);
        // final boundary check at rest
        tokio::time::sleep(Duration::from_millis(20)).await;
        let snap = svc.verif_pool_snapshot();
        let mut w = lock(&world);
        monitors::post_step(&mut w, &snap);
        hang
    });
    rt.shutdown_timeout(Duration::from_millis(200));
    let w = lock(&world);
    let mut counters = w.counters.clone();
    counters.insert("wall_ms".into(), t0.elapsed().as_millis() as u64);
    (w.violations.clone(), counters, hang, desc)
}

pub fn run(args: &Args) -> Report {
    let n = args.extra_u64("runs", if args.tier_thorough { 300 } else { 24 });
    let mut rep = Report::new("poolstress");
    // runs are sequential (each one uses many threads itself)
    for i in 0..n {
        let seed = args.seed.wrapping_mul(7919).wrapping_add(i);
        let (violations, counters, hang, desc) = run_one(seed, args.tier_thorough);
        for prop in ["C01", "C02", "C04", "C05", "C06", "C15"] {
            if !args.wants(prop) {
                continue;
            }
            let p = rep.prop(prop, RULE);
            p.eval(Some(hash_of(&seed)));
            for (k, v) in &counters {
                p.count(k, *v);
            }
            p.count("runs", 1);
            if hang {
                p.inconclusive.push(format!("wall-clock watchdog (90 s) fired in stress run {desc}"));
            }
            for v in violations.iter().filter(|v| v.prop == prop) {
                p.violation(format!("stress:{}", v.signature), format!("{} | run {desc}", v.message), desc.clone());
            }
            if p.samples.len() < 2 {
                p.sample(json!({"run": desc, "requests_ok": counters.get("requests_ok"), "handoffs": counters.get("handoffs"), "cancelled": counters.get("requests_cancelled"), "chaos_closes": counters.get("chaos_closes")}));
            }
        }
    }
    for p in rep.props.values_mut() {
        p.assume("real-thread runs judge safety at the hand-off point only (monitor state is updated under one harness mutex, never inside the pool's lock); step-atomic rules (R1-R3, R5, R6, C14 offers) are left to the deterministic stepper");
        p.assume("a watchdog expiry is inconclusive, never a violation");
    }
    rep
}
