//! PoolLab: harness-owned transport / protocol / connection / inner service written against the
//! *public* traits of hyperdriver's client pool. Every object records what happens to it in a shared
//! `World`; the online monitors live in `monitors.rs`, the stepper in `stepper.rs`.

pub mod monitors;
pub mod scenarios;
pub mod stepper;
pub mod stress;

use std::future::Future;
use std::pin::Pin;
use std::sync::{Arc, Mutex, MutexGuard};
use std::task::{Context, Poll, Waker};
use std::time::Instant;

use http::{Request, Response, Version};
use hyperdriver::client::conn::connection::ConnectionError;
use hyperdriver::client::conn::{Connection, ProtocolRequest};
use hyperdriver::client::pool::{PoolableConnection, PoolableStream, Pooled};
use hyperdriver::info::{ConnectionInfo, HasConnectionInfo};
use hyperdriver::service::ExecuteRequest;
use hyperdriver::Body;

#[derive(Clone, Copy, Debug, PartialEq, Eq, Hash)]
pub enum Res3 {
    Pending,
    Ok,
    Err,
}

#[derive(Debug)]
pub struct DialRec {
    pub id: usize,
    pub req: Option<usize>,
    pub uri: String,
    pub origin: String,
    pub h2_req: bool,
    pub created_step: u64,
    pub first_poll_step: Option<u64>,
    pub res: Res3,
    pub completed: bool,
    pub waker: Option<Waker>,
    pub dropped_step: Option<u64>,
    /// step at which the request that owned this dial was cancelled / pre-empted while it was outstanding
    pub abandoned_step: Option<u64>,
    pub hs: Option<usize>,
}

#[derive(Debug)]
pub struct HsRec {
    pub id: usize,
    pub dial: usize,
    pub h2: bool,
    pub created_step: u64,
    pub res: Res3,
    pub completed: bool,
    pub waker: Option<Waker>,
    pub dropped_step: Option<u64>,
    pub conn: Option<usize>,
}

#[derive(Debug)]
pub struct ConnRec {
    pub id: usize,
    pub dial: usize,
    pub uri: String,
    pub origin: String,
    pub h2: bool,
    pub created_step: u64,
    pub closed_step: Option<u64>,
    /// wall-clock instant of the close (real-thread engine only)
    pub closed_instant: Option<Instant>,
    /// h1: a request is in flight / its response body has not been consumed
    pub busy: bool,
    pub busy_req: Option<usize>,
    /// number of requests currently holding the connection (Pooled handle alive in the inner service)
    pub holders: u32,
    pub upgraded: bool,
    pub ready_reported_step: Option<u64>,
    pub ready_instant: Option<Instant>,
    pub released_step: Option<u64>,
    pub handoffs: u32,
    pub last_handoff_step: Option<u64>,
    pub discard_judged: bool,
    pub live_handles: u32,
    pub dropped_step: Option<u64>,
    pub ready_waker: Option<Waker>,
    /// at the moment it reported ready no request to its origin was waiting for a connection, so the
    /// pool can only have put it into the idle list
    pub to_idle_at_ready: bool,
    pub reuse_calls: u32,
    pub destroyed_by_cancel: bool,
    /// HTTP/2: an idle entry for this connection is (believed to be) held by the pool
    pub in_pool: bool,
    /// HTTP/2: a lower bound of the time stamp of the pool's idle entry (registration, or the issue instant of
    /// the last request that was given this connection from the idle list)
    pub refreshed_instant: Option<Instant>,
    pub registered_instant: Option<Instant>,
    pub last_reuse_step: Option<u64>,
    pub reuse_calls_this_step: u32,
}

impl ConnRec {
    pub fn alive(&self) -> bool {
        self.live_handles > 0
    }
    pub fn open(&self) -> bool {
        self.closed_step.is_none() && !self.upgraded
    }
    /// mirrors `HttpConnection::is_open`
    pub fn is_open(&self) -> bool {
        self.open() && (self.h2 || !self.busy)
    }
}

#[derive(Debug, Clone, Copy, PartialEq, Eq, Hash)]
pub enum ReqState {
    /// issued, waiting for a connection (own dial, another request's dial, idle or waiter hand-off)
    Checkout,
    /// handed to the inner service, response head not yet produced
    Sent,
    /// response head delivered to the caller (future resolved Ok)
    Done,
    Failed,
    Cancelled,
}

#[derive(Debug)]
pub struct ReqRec {
    pub id: usize,
    pub uri: String,
    pub origin: String,
    pub h2: bool,
    pub probe: bool,
    pub issued_step: u64,
    pub issued_instant: Instant,
    /// instant at which the last operation before this request's issue finished (everything that can touch
    /// the pool's idle entries happened at or before it)
    pub prev_activity: Option<Instant>,
    /// HTTP/1 connections handed back (and possibly put in this request's channel) since its last poll
    pub offered_since_poll: Vec<usize>,
    pub state: ReqState,
    pub dial: Option<usize>,
    pub conn: Option<usize>,
    pub handoff_step: Option<u64>,
    pub handoffs: u32,
    pub responded: bool,
    pub body_done: bool,
    pub upgrade: bool,
    pub cancelled_step: Option<u64>,
    pub finished_step: Option<u64>,
    pub error: Option<String>,
    pub polls: u32,
    pub resp_waker: Option<Waker>,
    /// Some(upgrade?) once the script asked the inner future to respond
    pub respond: Option<bool>,
    // --- expectations recorded by the monitors
    /// connections that were idle-available at issue time (R1)
    pub avail_at_issue: Vec<usize>,
    pub must_use_idle: bool,
    /// the request was a pure waiter on this owner's in-flight attempt at issue time
    pub waits_on: Option<usize>,
    pub is_owner: bool,
    pub timeout_ms: Option<u64>,
    pub issued_vtime_ms: u64,
    pub finished_vtime_ms: Option<u64>,
    /// virtual time at which the peer's response became available to the inner future
    pub respond_vtime_ms: Option<u64>,
}

/// a connection pushed into the pool while requests were waiting for one (C14)
#[derive(Debug, Clone)]
pub struct Offer {
    pub conn: usize,
    pub step: u64,
    pub waiters: Vec<usize>,
    pub polled: Vec<usize>,
    /// HTTP/2: every listed waiter gets its own clone and must take it at its next poll
    pub strict_each: bool,
}

#[derive(Debug, Clone)]
pub struct Event {
    pub step: u64,
    pub what: String,
}

#[derive(Debug, Clone)]
pub struct Violation {
    pub prop: &'static str,
    pub signature: String,
    pub message: String,
}

#[derive(Debug, Clone)]
pub struct OriginCfg {
    pub uri: String,
    /// protocol answers with an HTTP/2 connection even for HTTP/1.1 requests (ALPN h2)
    pub alpn_h2: bool,
}

#[derive(Debug, Clone)]
pub struct LabConfig {
    pub continue_after_preemption: bool,
    pub idle_timeout_ms: Option<u64>,
    pub max_idle_per_host: usize,
    pub with_pool: bool,
    pub origins: Vec<OriginCfg>,
    pub timeout_layer_ms: Option<u64>,
    /// `PoolableConnection::is_open` of the harness connection means just "not closed" (as the trait documents)
    /// instead of mirroring `HttpConnection::is_open` (= ready for the next request)
    pub open_ignores_busy: bool,
    /// the caller keeps the future of a resolved request alive (pinned on its stack, a struct field) instead of
    /// dropping it at once; it is dropped when the scenario ends
    pub keep_completed_futures: bool,
    /// every instance of the protocol service answers `Pending` (with a wake-up) this many times before it is ready
    pub protocol_pending_polls: u8,
}

pub struct World {
    pub step: u64,
    pub cfg: LabConfig,
    pub dials: Vec<DialRec>,
    pub hss: Vec<HsRec>,
    pub conns: Vec<ConnRec>,
    pub reqs: Vec<ReqRec>,
    pub events: Vec<Event>,
    pub violations: Vec<Violation>,
    pub counters: std::collections::BTreeMap<String, u64>,
    pub record_events: bool,
    /// per origin: the HTTP/2 request that owns the in-flight connection attempt
    pub h2_owner: std::collections::HashMap<String, usize>,
    pub vtime_origin: Option<tokio::time::Instant>,
    /// injected scheduling noise for the real-thread engine (0 = none)
    pub jitter: u32,
    pub offers: Vec<Offer>,
    pub last_activity: Option<Instant>,
    /// two configured origins differ only in letter case: whether a pool treats them as one origin (host names are
    /// case-insensitive) or as two (keys as written) is its choice, so "must share / must reuse" obligations are
    /// not judged in such a world; "must not share" (C06) is
    pub ambiguous_spelling: bool,
    /// real-thread stress mode: dials, handshakes, responses and bodies resolve by themselves
    pub auto: Option<AutoCfg>,
}

#[derive(Debug, Clone, Copy)]
pub struct AutoCfg {
    pub fail_dial_pct: u32,
    pub fail_hs_pct: u32,
    pub max_yields: u32,
}

pub type Shared = Arc<Mutex<World>>;

pub fn lock(w: &Shared) -> MutexGuard<'_, World> {
    w.lock().unwrap_or_else(|e| e.into_inner())
}

/// normalised origin: lower-case scheme and authority as written
/// the pool's notion of an origin: lower-case scheme and authority as written (the pool key is derived from them)
pub fn origin_of(uri: &http::Uri) -> String {
    format!(
        "{}://{}",
        uri.scheme_str().unwrap_or("").to_ascii_lowercase(),
        uri.authority().map(|a| a.as_str().to_ascii_lowercase()).unwrap_or_default()
    )
}

/// C06's notion: the scheme's default port written explicitly names the same origin (a pool may or may not
/// merge the two spellings; either is fine), every other difference in scheme, host or port is a different origin
pub fn origin_norm(origin: &str) -> String {
    let (scheme, authority) = origin.split_once("://").unwrap_or(("", origin));
    // user information is not part of where a connection goes: `http://user@h` and `http://h` name the same server
    let authority = authority.rsplit_once('@').map(|(_, h)| h).unwrap_or(authority);
    let origin = &format!("{scheme}://{authority}");
    let default = match scheme {
        "http" | "ws" => Some(":80"),
        "https" | "wss" => Some(":443"),
        _ => None,
    };
    match default {
        Some(d) if authority.ends_with(d) => format!("{scheme}://{}", &authority[..authority.len() - d.len()]),
        _ => origin.to_string(),
    }
}

impl World {
    pub fn new(cfg: LabConfig) -> World {
        let exact: Vec<String> = cfg.origins.iter().map(|o| o.uri.clone()).collect();
        let ambiguous_spelling = exact.iter().enumerate().any(|(i, a)| exact.iter().skip(i + 1).any(|b| a != b && a.eq_ignore_ascii_case(b)));
        World {
            step: 0,
            ambiguous_spelling,
            cfg,
            dials: vec![],
            hss: vec![],
            conns: vec![],
            reqs: vec![],
            events: vec![],
            violations: vec![],
            counters: Default::default(),
            record_events: true,
            h2_owner: Default::default(),
            vtime_origin: None,
            jitter: 0,
            offers: vec![],
            last_activity: None,
            auto: None,
        }
    }

    pub fn ev(&mut self, what: impl FnOnce() -> String) {
        if self.record_events {
            let step = self.step;
            self.events.push(Event { step, what: what() });
        }
    }

    pub fn count(&mut self, k: &str) {
        *self.counters.entry(k.to_string()).or_default() += 1;
    }

    pub fn violate(&mut self, prop: &'static str, signature: impl Into<String>, message: impl Into<String>) {
        let signature = signature.into();
        let message = message.into();
        self.ev(|| format!("VIOLATION {prop} {signature}: {message}"));
        self.violations.push(Violation { prop, signature, message });
    }

    /// in auto (real-thread) mode every recorded event advances the logical clock
    pub fn tick(&mut self) -> u64 {
        if self.auto.is_some() {
            self.step += 1;
        }
        self.step
    }

    pub fn vnow_ms(&self) -> u64 {
        self.vtime_origin.map(|o| o.elapsed().as_millis() as u64).unwrap_or(0)
    }
}

// ---------------------------------------------------------------------------------------------
// Transport
// ---------------------------------------------------------------------------------------------

#[derive(Debug)]
pub struct LabError(pub String);
impl std::fmt::Display for LabError {
    fn fmt(&self, f: &mut std::fmt::Formatter<'_>) -> std::fmt::Result {
        write!(f, "lab: {}", self.0)
    }
}
impl std::error::Error for LabError {}

#[derive(Clone)]
pub struct LabTransport {
    pub world: Shared,
}

pub struct LabStream {
    pub dial: usize,
    pub world: Shared,
}

#[derive(Debug, Clone)]
pub struct LabAddr(pub String);
impl std::fmt::Display for LabAddr {
    fn fmt(&self, f: &mut std::fmt::Formatter<'_>) -> std::fmt::Result {
        write!(f, "{}", self.0)
    }
}

impl HasConnectionInfo for LabStream {
    type Addr = LabAddr;
    fn info(&self) -> ConnectionInfo<LabAddr> {
        ConnectionInfo { local_addr: LabAddr("lab-local".into()), remote_addr: LabAddr(format!("dial-{}", self.dial)) }
    }
}

impl PoolableStream for LabStream {
    fn can_share(&self) -> bool {
        false
    }
}

pub const REQ_HEADER: &str = "x-lab-req";

impl tower::Service<http::request::Parts> for LabTransport {
    type Response = LabStream;
    type Error = LabError;
    type Future = DialFuture;

    fn poll_ready(&mut self, _cx: &mut Context<'_>) -> Poll<Result<(), Self::Error>> {
        Poll::Ready(Ok(()))
    }

    fn call(&mut self, parts: http::request::Parts) -> Self::Future {
        let mut w = lock(&self.world);
        let req = parts.headers.get(REQ_HEADER).and_then(|v| v.to_str().ok()).and_then(|s| s.parse::<usize>().ok());
        let id = w.dials.len();
        let step = w.tick();
        let origin = origin_of(&parts.uri);
        let h2_req = parts.version == Version::HTTP_2;
        w.dials.push(DialRec {
            id,
            req,
            uri: parts.uri.to_string(),
            origin,
            h2_req,
            created_step: step,
            first_poll_step: None,
            res: Res3::Pending,
            completed: false,
            waker: None,
            dropped_step: None,
            abandoned_step: None,
            hs: None,
        });
        w.ev(|| format!("dial d{id} created for r{req:?} uri={}", parts.uri));
        w.count("dials");
        monitors::on_dial_created(&mut w, id);
        drop(w);
        DialFuture { id, world: self.world.clone() }
    }
}

pub struct DialFuture {
    id: usize,
    world: Shared,
}

fn maybe_jitter(world: &Shared) {
    let j = lock(world).jitter;
    if j > 0 {
        // scheduling noise outside of every lock (real-thread engine only)
        let x = fastish_rand() % (j as u64 + 1);
        if x % 3 == 0 {
            std::thread::yield_now();
        } else if x % 7 == 0 {
            std::thread::sleep(std::time::Duration::from_micros(x));
        }
    }
}

fn fastish_rand() -> u64 {
    use std::cell::Cell;
    thread_local! { static S: Cell<u64> = Cell::new(0x9e3779b97f4a7c15 ^ (std::thread::current().id().as_u64_compat())); }
    S.with(|s| {
        let mut x = s.get();
        x ^= x << 13;
        x ^= x >> 7;
        x ^= x << 17;
        s.set(x);
        x
    })
}

trait ThreadIdCompat {
    fn as_u64_compat(&self) -> u64;
}
impl ThreadIdCompat for std::thread::ThreadId {
    fn as_u64_compat(&self) -> u64 {
        crate::report::hash_of(self)
    }
}

impl Future for DialFuture {
    type Output = Result<LabStream, LabError>;
    fn poll(self: Pin<&mut Self>, cx: &mut Context<'_>) -> Poll<Self::Output> {
        maybe_jitter(&self.world);
        let mut w = lock(&self.world);
        let step = w.tick();
        let auto = w.auto;
        let d = &mut w.dials[self.id];
        d.first_poll_step.get_or_insert(step);
        if let (Some(a), Res3::Pending) = (auto, d.res) {
            // resolve by ourselves after a random number of yields
            let r = fastish_rand();
            if (r % (a.max_yields as u64 + 1)) != 0 {
                cx.waker().wake_by_ref();
                return Poll::Pending;
            }
            d.res = if (r >> 20) % 100 < a.fail_dial_pct as u64 { Res3::Err } else { Res3::Ok };
        }
        match d.res {
            Res3::Pending => {
                d.waker = Some(cx.waker().clone());
                Poll::Pending
            }
            Res3::Ok => {
                d.completed = true;
                let id = self.id;
                w.ev(|| format!("dial d{id} completes Ok"));
                Poll::Ready(Ok(LabStream { dial: self.id, world: self.world.clone() }))
            }
            Res3::Err => {
                d.completed = true;
                let id = self.id;
                w.ev(|| format!("dial d{id} completes Err"));
                Poll::Ready(Err(LabError(format!("dial {} refused", self.id))))
            }
        }
    }
}

impl Drop for DialFuture {
    fn drop(&mut self) {
        let mut w = lock(&self.world);
        let step = w.step;
        let d = &mut w.dials[self.id];
        d.dropped_step = Some(step);
        let completed = d.completed;
        let id = self.id;
        w.ev(|| format!("dial d{id} future dropped (completed={completed})"));
    }
}

// ---------------------------------------------------------------------------------------------
// Protocol
// ---------------------------------------------------------------------------------------------

pub struct LabProtocol {
    pub world: Shared,
    pending_left: Option<u8>,
}

impl LabProtocol {
    pub fn new(world: Shared) -> Self {
        LabProtocol { world, pending_left: None }
    }
}

impl Clone for LabProtocol {
    fn clone(&self) -> Self {
        LabProtocol { world: self.world.clone(), pending_left: None }
    }
}

impl tower::Service<ProtocolRequest<LabStream, Body>> for LabProtocol {
    type Response = LabConn;
    type Error = ConnectionError;
    type Future = HsFuture;

    fn poll_ready(&mut self, cx: &mut Context<'_>) -> Poll<Result<(), Self::Error>> {
        let left = self.pending_left.get_or_insert_with(|| lock(&self.world).cfg.protocol_pending_polls);
        if *left > 0 {
            *left -= 1;
            lock(&self.world).count("protocol_not_ready_polls");
            cx.waker().wake_by_ref();
            return Poll::Pending;
        }
        Poll::Ready(Ok(()))
    }

    fn call(&mut self, req: ProtocolRequest<LabStream, Body>) -> Self::Future {
        self.pending_left = None;
        let mut w = lock(&self.world);
        let dial = req.transport.dial;
        let origin = w.dials[dial].origin.clone();
        let alpn_h2 = w.cfg.origins.iter().any(|o| o.alpn_h2 && origin_of(&o.uri.parse().unwrap()) == origin);
        let h2 = req.version.multiplex() || alpn_h2;
        let id = w.hss.len();
        let step = w.step;
        w.hss.push(HsRec { id, dial, h2, created_step: step, res: Res3::Pending, completed: false, waker: None, dropped_step: None, conn: None });
        w.dials[dial].hs = Some(id);
        w.ev(|| format!("handshake h{id} for d{dial} (h2={h2})"));
        drop(w);
        HsFuture { id, world: self.world.clone(), stream: Some(req.transport) }
    }
}

pub struct HsFuture {
    id: usize,
    world: Shared,
    stream: Option<LabStream>,
}

impl Future for HsFuture {
    type Output = Result<LabConn, ConnectionError>;
    fn poll(mut self: Pin<&mut Self>, cx: &mut Context<'_>) -> Poll<Self::Output> {
        maybe_jitter(&self.world);
        let world = self.world.clone();
        let mut guard = lock(&world);
        let w: &mut World = &mut guard;
        let step = w.tick();
        let auto = w.auto;
        let h = &mut w.hss[self.id];
        if let (Some(a), Res3::Pending) = (auto, h.res) {
            let r = fastish_rand();
            if (r % (a.max_yields as u64 + 1)) != 0 {
                cx.waker().wake_by_ref();
                return Poll::Pending;
            }
            h.res = if (r >> 20) % 100 < a.fail_hs_pct as u64 { Res3::Err } else { Res3::Ok };
        }
        match h.res {
            Res3::Pending => {
                h.waker = Some(cx.waker().clone());
                Poll::Pending
            }
            Res3::Err => {
                h.completed = true;
                Poll::Ready(Err(ConnectionError::Handshake(Box::new(LabError(format!("handshake {} failed", self.id))))))
            }
            Res3::Ok => {
                h.completed = true;
                let dial = h.dial;
                let h2 = h.h2;
                let id = w.conns.len();
                h.conn = Some(id);
                let uri = w.dials[dial].uri.clone();
                let origin = w.dials[dial].origin.clone();
                w.conns.push(ConnRec {
                    id,
                    dial,
                    uri,
                    origin,
                    h2,
                    created_step: step,
                    closed_step: None,
                    closed_instant: None,
                    busy: false,
                    busy_req: None,
                    holders: 0,
                    upgraded: false,
                    ready_reported_step: None,
                    ready_instant: None,
                    released_step: None,
                    handoffs: 0,
                    last_handoff_step: None,
                    discard_judged: false,
                    live_handles: 1,
                    dropped_step: None,
                    ready_waker: None,
                    to_idle_at_ready: false,
                    reuse_calls: 0,
                    destroyed_by_cancel: false,
                    in_pool: false,
                    refreshed_instant: None,
                    registered_instant: None,
                    last_reuse_step: None,
                    reuse_calls_this_step: 0,
                });
                w.ev(|| format!("conn c{id} established from d{dial} (h2={h2})"));
                w.count("conns_established");
                drop(guard);
                self.stream.take();
                Poll::Ready(Ok(LabConn { id, world }))
            }
        }
    }
}

impl Drop for HsFuture {
    fn drop(&mut self) {
        let mut w = lock(&self.world);
        let step = w.step;
        w.hss[self.id].dropped_step = Some(step);
    }
}

// ---------------------------------------------------------------------------------------------
// Connection
// ---------------------------------------------------------------------------------------------

pub struct LabConn {
    pub id: usize,
    pub world: Shared,
}

impl std::fmt::Debug for LabConn {
    fn fmt(&self, f: &mut std::fmt::Formatter<'_>) -> std::fmt::Result {
        write!(f, "LabConn(c{})", self.id)
    }
}

impl Drop for LabConn {
    fn drop(&mut self) {
        let mut w = lock(&self.world);
        let step = w.tick();
        let c = &mut w.conns[self.id];
        c.live_handles -= 1;
        if c.live_handles == 0 {
            c.dropped_step = Some(step);
            let id = self.id;
            w.ev(|| format!("conn c{id} dropped (last handle)"));
            monitors::on_conn_dropped(&mut w, id);
        }
    }
}

impl Connection<Body> for LabConn {
    type ResBody = Body;
    type Error = LabError;
    type Future = std::future::Ready<Result<Response<Body>, LabError>>;

    fn send_request(&mut self, _request: Request<Body>) -> Self::Future {
        // the lab inner service never sends through the connection; it plays the peer itself
        std::future::ready(Err(LabError("send_request is not used by the lab".into())))
    }

    fn poll_ready(&mut self, cx: &mut Context<'_>) -> Poll<Result<(), Self::Error>> {
        maybe_jitter(&self.world);
        let mut w = lock(&self.world);
        let step = w.tick();
        let id = self.id;
        let c = &mut w.conns[id];
        if !c.open() {
            w.ev(|| format!("conn c{id} poll_ready -> Err (closed/upgraded)"));
            return Poll::Ready(Err(LabError(format!("connection {id} closed"))));
        }
        if !c.h2 && c.busy {
            c.ready_waker = Some(cx.waker().clone());
            return Poll::Pending;
        }
        c.ready_reported_step = Some(step);
        c.ready_instant = Some(Instant::now());
        w.ev(|| format!("conn c{id} reports ready"));
        monitors::on_conn_ready(&mut w, id);
        Poll::Ready(Ok(()))
    }

    fn version(&self) -> Version {
        if lock(&self.world).conns[self.id].h2 {
            Version::HTTP_2
        } else {
            Version::HTTP_11
        }
    }
}

impl PoolableConnection<Body> for LabConn {
    fn is_open(&self) -> bool {
        let w = lock(&self.world);
        if w.cfg.open_ignores_busy {
            w.conns[self.id].open()
        } else {
            w.conns[self.id].is_open()
        }
    }

    fn can_share(&self) -> bool {
        lock(&self.world).conns[self.id].h2
    }

    fn reuse(&mut self) -> Option<Self> {
        let mut w = lock(&self.world);
        let step = w.step;
        let c = &mut w.conns[self.id];
        if c.h2 {
            c.live_handles += 1;
            c.reuse_calls += 1;
            c.in_pool = true;
            let now = Instant::now();
            if c.registered_instant.is_none() {
                c.registered_instant = Some(now);
            }
            if c.refreshed_instant.is_none() {
                c.refreshed_instant = Some(now);
            }
            // register_connected clones once for the pool, then push() clones once per live waiter
            let n = if c.last_reuse_step == Some(step) { c.reuse_calls_this_step + 1 } else { 1 };
            c.last_reuse_step = Some(step);
            c.reuse_calls_this_step = n;
            if n >= 2 && w.cfg.with_pool {
                let id = self.id;
                monitors::offer_to_next_waiter(&mut w, id);
            }
            Some(LabConn { id: self.id, world: self.world.clone() })
        } else {
            None
        }
    }
}

// ---------------------------------------------------------------------------------------------
// Inner service: the hand-off point
// ---------------------------------------------------------------------------------------------

#[derive(Clone)]
pub struct LabInner {
    pub world: Shared,
}

impl tower::Service<ExecuteRequest<Pooled<LabConn, Body>, Body>> for LabInner {
    type Response = Response<Body>;
    type Error = hyperdriver::client::Error;
    type Future = InnerFuture;

    fn poll_ready(&mut self, _cx: &mut Context<'_>) -> Poll<Result<(), Self::Error>> {
        Poll::Ready(Ok(()))
    }

    fn call(&mut self, req: ExecuteRequest<Pooled<LabConn, Body>, Body>) -> Self::Future {
        let (pooled, request) = req.into_parts();
        let conn = pooled.id;
        let is_reused = pooled.is_reused();
        let rid = request.headers().get(REQ_HEADER).and_then(|v| v.to_str().ok()).and_then(|s| s.parse::<usize>().ok());
        let mut w = lock(&self.world);
        let rid = match rid {
            Some(r) if r < w.reqs.len() => r,
            _ => {
                w.violate("C01", "handoff:unknown-request", format!("inner service received a request without a known id on c{conn}"));
                usize::MAX
            }
        };
        if rid != usize::MAX {
            monitors::on_handoff(&mut w, rid, conn, is_reused, request.uri());
        }
        drop(w);
        InnerFuture { rid, conn, world: self.world.clone(), pooled: Some(pooled), done: false }
    }
}

pub struct InnerFuture {
    rid: usize,
    conn: usize,
    world: Shared,
    pooled: Option<Pooled<LabConn, Body>>,
    done: bool,
}

impl Future for InnerFuture {
    type Output = Result<Response<Body>, hyperdriver::client::Error>;
    fn poll(mut self: Pin<&mut Self>, cx: &mut Context<'_>) -> Poll<Self::Output> {
        if self.rid == usize::MAX {
            self.done = true;
            return Poll::Ready(Err(hyperdriver::client::Error::UnsupportedProtocol));
        }
        maybe_jitter(&self.world);
        let world = self.world.clone();
        let mut w = lock(&world);
        let step = w.tick();
        let rid = self.rid;
        let cid = self.conn;
        if let (Some(a), None) = (w.auto, w.reqs[rid].respond) {
            let r = fastish_rand();
            if (r % (a.max_yields as u64 + 1)) != 0 {
                cx.waker().wake_by_ref();
                return Poll::Pending;
            }
            w.reqs[rid].respond = Some(false);
            if !w.conns[cid].h2 {
                // the response body is consumed a little later, on another task
                let wd = world.clone();
                tokio::spawn(async move {
                    for _ in 0..(fastish_rand() % 4) {
                        tokio::task::yield_now().await;
                    }
                    let wk = {
                        let mut w = lock(&wd);
                        w.tick();
                        let c = &mut w.conns[cid];
                        if c.busy_req == Some(rid) {
                            c.busy = false;
                            c.busy_req = None;
                            c.ready_waker.take()
                        } else {
                            None
                        }
                    };
                    if let Some(wk) = wk {
                        wk.wake();
                    }
                });
            }
        }
        match w.reqs[rid].respond {
            None => {
                w.reqs[rid].resp_waker = Some(cx.waker().clone());
                Poll::Pending
            }
            Some(upgrade) => {
                // response head: the Pooled handle is released (as RequestExecutor does)
                let r = &mut w.reqs[rid];
                r.responded = true;
                let c = &mut w.conns[cid];
                c.holders = c.holders.saturating_sub(1);
                c.released_step = Some(step);
                if upgrade {
                    c.upgraded = true;
                }
                w.ev(|| format!("r{rid} response head on c{cid} (upgrade={upgrade}); connection released"));
                drop(w);
                self.done = true;
                let pooled = self.pooled.take();
                drop(pooled);
                let mut resp = Response::new(Body::empty());
                resp.headers_mut().insert(REQ_HEADER, http::HeaderValue::from(rid as u64));
                resp.headers_mut().insert("x-lab-conn", http::HeaderValue::from(cid as u64));
                Poll::Ready(Ok(resp))
            }
        }
    }
}

impl Drop for InnerFuture {
    fn drop(&mut self) {
        if self.rid == usize::MAX {
            return;
        }
        if !self.done {
            // dropped while the request was in flight (cancel / timeout): the peer never got to answer.
            let mut w = lock(&self.world);
            let step = w.tick();
            let (rid, cid) = (self.rid, self.conn);
            let c = &mut w.conns[cid];
            c.holders = c.holders.saturating_sub(1);
            c.released_step = Some(step);
            if !c.h2 {
                // an HTTP/1 exchange abandoned mid-flight poisons the connection (hyper closes it)
                c.closed_step.get_or_insert(step);
                c.busy = false;
                if let Some(wk) = c.ready_waker.take() {
                    wk.wake();
                }
            }
            w.ev(|| format!("r{rid} inner future dropped in flight on c{cid}"));
            drop(w);
        }
        // the Pooled handle (if still here) is dropped after the world lock is released
        let pooled = self.pooled.take();
        drop(pooled);
    }
}
