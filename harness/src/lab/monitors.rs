//! Online monitors of PoolLab. Every function runs under the world lock, in the same critical
//! section as the shadow-state update it judges, so the monitors are not themselves racy.

use super::*;

pub const EXPIRY_MARGIN_MS: u64 = 30;

fn waiting_reqs<'a>(w: &'a World, origin: &'a str) -> impl Iterator<Item = &'a ReqRec> + 'a {
    w.reqs.iter().filter(move |r| r.origin == origin && r.state == ReqState::Checkout)
}

/// connections of `origin` that the pool must be holding in its idle list right now
pub fn idle_available(w: &World, origin: &str) -> Vec<usize> {
    if !w.cfg.with_pool || w.cfg.max_idle_per_host == 0 {
        return vec![];
    }
    let now = Instant::now();
    w.conns
        .iter()
        .filter(|c| c.origin == origin && c.alive() && (c.h2 || c.holders == 0) && c.is_open())
        .filter(|c| {
            if c.h2 {
                // registered with the pool (register_connected / push call reuse())
                c.in_pool && !reserved_h2(w, c.id)
            } else {
                c.to_idle_at_ready
                    && c.ready_reported_step.is_some()
                    && c.ready_reported_step >= c.released_step
            }
        })
        .filter(|c| match (w.cfg.idle_timeout_ms, c.ready_instant) {
            // only connections that are clearly not expired count as available
            (Some(t), Some(at)) if t > 0 && !c.h2 => (now.duration_since(at).as_millis() as u64) + EXPIRY_MARGIN_MS < t,
            (Some(t), None) if t > 0 && !c.h2 => false,
            (Some(t), _) if t > 0 && c.h2 => t >= 5_000,
            _ => true,
        })
        .map(|c| c.id)
        .collect()
}

/// an HTTP/2 connection that a request popped from the idle list at issue time and has not
/// re-registered yet (the request has not been polled)
fn reserved_h2(w: &World, cid: usize) -> bool {
    w.reqs.iter().any(|r| r.state == ReqState::Checkout && r.polls == 0 && r.avail_at_issue.contains(&cid))
}

pub fn on_issue(w: &mut World, rid: usize) {
    let origin = w.reqs[rid].origin.clone();
    let h2 = w.reqs[rid].h2;
    if !w.cfg.with_pool {
        return;
    }
    // candidates by shadow state; requests that are still checking out and popped a connection at their
    // own issue each hold one of them (which one is the pool's choice)
    let candidates = idle_available(w, &origin);
    let reserved = w.reqs.iter().filter(|r| r.id != rid && r.origin == origin && r.state == ReqState::Checkout && !r.avail_at_issue.is_empty()).count();
    if candidates.len() > reserved {
        w.reqs[rid].avail_at_issue = candidates;
        w.reqs[rid].must_use_idle = reserved == 0;
        if reserved == 0 {
            w.count("issue_with_idle_available");
        }
    }
    if h2 && w.reqs[rid].avail_at_issue.is_empty() {
        let owner = w.h2_owner.get(&origin).copied().filter(|o| w.reqs[*o].state == ReqState::Checkout);
        match owner {
            Some(o) => {
                w.reqs[rid].waits_on = Some(o);
                w.count("issue_h2_pure_waiter");
            }
            None => {
                w.reqs[rid].is_owner = true;
                w.h2_owner.insert(origin, rid);
            }
        }
    }
}

pub fn on_dial_created(w: &mut World, did: usize) {
    let Some(rid) = w.dials[did].req.filter(|r| *r < w.reqs.len()) else {
        return;
    };
    let origin = w.reqs[rid].origin.clone();
    if let Some(prev) = w.reqs[rid].dial {
        w.violate("C04", "R4:request-dialed-twice", format!("r{rid} started dial d{did} although it already started d{prev}"));
    }
    w.reqs[rid].dial = Some(did);
    if !w.cfg.with_pool {
        return;
    }
    if w.reqs[rid].state == ReqState::Cancelled {
        // With continue_after_preemption a cancelled request's attempt is started/continued in the
        // background by design (C14); observed, not judged.
        w.count("dials_started_in_background_for_cancelled_request");
    }
    // R1
    if w.reqs[rid].must_use_idle {
        let still = w.reqs[rid].avail_at_issue.iter().all(|c| w.conns[*c].open() && w.conns[*c].alive());
        if still {
            let av = w.reqs[rid].avail_at_issue.clone();
            w.violate("C04", "R1:dialed-although-idle-connection-available", format!("r{rid} started dial d{did} although connections {av:?} were idle-available when it was issued"));
        }
    }
    if w.reqs[rid].h2 {
        // R2
        if let Some(o) = w.h2_owner.get(&origin).copied() {
            if o != rid && w.reqs[o].state == ReqState::Checkout && w.reqs[o].issued_step <= w.reqs[rid].issued_step {
                let owner_dialing = w.reqs[o].dial.map(|d| !w.dials[d].completed || w.dials[d].hs.map(|h| !w.hss[h].completed).unwrap_or(true)).unwrap_or(true);
                if owner_dialing {
                    w.violate(
                        "C04",
                        "R2:h2-request-dialed-while-attempt-in-flight",
                        format!("HTTP/2 request r{rid} started dial d{did} while r{o}'s attempt to {origin} is in flight"),
                    );
                }
            }
        }
        // R3
        let pooled = w.cfg.max_idle_per_host > 0;
        let existing: Vec<usize> = w.conns.iter().filter(|c| pooled && c.origin == origin && c.h2 && c.alive() && c.open() && c.in_pool).map(|c| c.id).collect();
        if let Some(c) = existing.first().copied() {
            let window = reserved_h2(w, c);
            w.violate(
                "C04",
                format!("R3:h2-request-dialed-although-h2-connection-exists{}", if window { ":popped-by-unpolled-request" } else { "" }),
                format!("HTTP/2 request r{rid} started dial d{did} although open HTTP/2 connection(s) {existing:?} to {origin} exist in the pool"),
            );
        }
    }
}

pub fn on_conn_dropped(_w: &mut World, _cid: usize) {}

pub fn on_conn_ready(w: &mut World, cid: usize) {
    let origin = w.conns[cid].origin.clone();
    let producer = w.dials[w.conns[cid].dial].req;
    let any_waiting = waiting_reqs(w, &origin).any(|r| r.avail_at_issue.is_empty() && r.expect_conn.is_none() && Some(r.id) != producer);
    w.conns[cid].to_idle_at_ready = !any_waiting;
    if !w.cfg.with_pool || w.conns[cid].h2 {
        return;
    }
    // C14(a): the first live waiter that has nothing delivered yet must take this connection at its next poll
    offer_to_next_waiter(w, cid);
}

/// a connection is being pushed to the pool while requests wait: the pool hands it to the first live
/// waiter in issue order (each waiter's channel holds at most one connection)
pub fn offer_to_next_waiter(w: &mut World, cid: usize) {
    let origin = w.conns[cid].origin.clone();
    let step = w.step;
    // the request whose own attempt produced this connection closes its receiver before registering it
    let producer = w.dials[w.conns[cid].dial].req;
    let next = waiting_reqs(w, &origin)
        .filter(|r| r.avail_at_issue.is_empty() && r.expect_conn.is_none() && Some(r.id) != producer)
        .map(|r| r.id)
        .min_by_key(|r| w.reqs[*r].issued_step);
    if let Some(h) = next {
        w.reqs[h].expect_conn = Some((cid, step));
        w.count("c14_freed_connection_offered_to_waiter");
    }
}

fn origin_diff(a: &str, b: &str) -> &'static str {
    let (sa, ha) = a.split_once("://").unwrap_or(("", a));
    let (sb, hb) = b.split_once("://").unwrap_or(("", b));
    if sa != sb && ha == hb {
        "scheme-only"
    } else {
        let host = |h: &str| h.rsplit_once(':').filter(|(_, p)| p.chars().all(|c| c.is_ascii_digit())).map(|(h, _)| h.to_string()).unwrap_or(h.to_string());
        if host(ha) == host(hb) {
            "port"
        } else {
            "host"
        }
    }
}

pub fn on_handoff(w: &mut World, rid: usize, cid: usize, is_reused: bool, uri: &http::Uri) {
    let step = w.step;
    w.count("handoffs");
    let r_origin = w.reqs[rid].origin.clone();
    let c = &w.conns[cid];
    let (c_origin, c_h2, c_holders, c_busy, c_upgraded, c_handoffs, c_closed, c_ready, c_released, c_ready_inst, c_to_idle, c_dial) =
        (c.origin.clone(), c.h2, c.holders, c.busy, c.upgraded, c.handoffs, c.closed_step, c.ready_reported_step, c.released_step, c.ready_instant, c.to_idle_at_ready, c.dial);
    w.ev(|| format!("HANDOFF r{rid} -> c{cid} (reused={is_reused} h2={c_h2} holders={c_holders} busy={c_busy} closed={c_closed:?})"));

    // ---- C01 (pool part)
    w.reqs[rid].handoffs += 1;
    if w.reqs[rid].handoffs > 1 {
        w.violate("C01", "handoff:request-handed-off-twice", format!("r{rid} reached the inner service twice"));
    }
    if w.reqs[rid].state != ReqState::Checkout {
        let st = w.reqs[rid].state;
        w.violate("C01", format!("handoff:request-in-state-{st:?}"), format!("r{rid} reached the inner service in state {st:?}"));
    }
    if origin_of(uri) != r_origin {
        w.violate("C01", "handoff:request-uri-changed", format!("r{rid} issued for {r_origin} arrived with uri {uri}"));
    }

    // ---- C06
    if c_origin != r_origin {
        w.violate(
            "C06",
            format!("cross-origin-handoff:{}", origin_diff(&c_origin, &r_origin)),
            format!("r{rid} for {r_origin} was given c{cid} which was dialed for {c_origin}"),
        );
    }

    // ---- C02
    if !c_h2 {
        if c_holders > 0 {
            w.violate("C02", "h1-handed-out-while-held", format!("c{cid} given to r{rid} while {c_holders} other request(s) hold it"));
        }
        if c_busy {
            w.violate("C02", "h1-handed-out-before-response-consumed", format!("c{cid} given to r{rid} while the previous response body is outstanding"));
        }
        if c_handoffs > 0 && !c_busy && c_holders == 0 && (c_ready.is_none() || c_ready < c_released) {
            w.violate("C02", "h1-handed-out-before-reporting-ready", format!("c{cid} given to r{rid}: released at {c_released:?}, last ready report {c_ready:?}"));
        }
    }
    if c_upgraded {
        w.violate("C02", "upgraded-connection-handed-out", format!("c{cid} was taken over by an upgrade and was given to r{rid}"));
    }

    // ---- C05
    if let Some(cs) = c_closed {
        let issued = w.reqs[rid].issued_step;
        if cs < issued {
            w.violate("C05", "closed-before-issue", format!("c{cid} closed at step {cs}, given to r{rid} issued at step {issued}"));
        } else if !c_h2 && c_handoffs > 0 && (c_released.map(|rel| cs <= rel).unwrap_or(false) || c_ready.is_none() || c_ready < c_released) {
            w.violate("C05", "closed-before-handback", format!("c{cid} closed at step {cs} before it was handed back (released {c_released:?}, ready {c_ready:?}), given to r{rid}"));
        } else {
            w.count("c05_closed_after_issue_handoffs_not_judged");
        }
    }
    if let (Some(t), Some(at)) = (w.cfg.idle_timeout_ms, c_ready_inst) {
        let issued_at = w.reqs[rid].issued_instant;
        if t > 0 && c_handoffs > 0 && c_to_idle && !c_h2 && issued_at > at {
            let idle_ms = issued_at.duration_since(at).as_millis() as u64;
            if idle_ms > t + EXPIRY_MARGIN_MS {
                w.violate("C05", "expired-connection-handed-out", format!("c{cid} sat idle {idle_ms}ms > idle_timeout {t}ms and was given to r{rid}"));
            } else if idle_ms + EXPIRY_MARGIN_MS < t {
                w.count("c05_unexpired_reuse");
            } else {
                w.count("c05_expiry_grey_zone");
            }
        }
    }

    // ---- C04 R3(b): an HTTP/2 request is carried on the existing HTTP/2 connection
    // ---- C14(a)
    if let Some((c0, s)) = w.reqs[rid].expect_conn.take() {
        if c0 != cid && w.conns[c0].open() && w.conns[c0].alive() && w.conns[c0].holders == 0 {
            w.violate("C14", "waiter-served-by-other-connection-while-freed-one-idles", format!("r{rid} was offered freed c{c0} at step {s} but was served by c{cid}"));
        } else if c0 == cid {
            w.count("c14_waiter_served_by_freed_connection");
        }
    }

    // ---- bookkeeping
    let kind = if c_handoffs == 0 && Some(c_dial) == w.reqs[rid].dial {
        "handoff_fresh_own_dial"
    } else if c_h2 {
        "handoff_h2_shared"
    } else if !w.reqs[rid].avail_at_issue.is_empty() {
        "handoff_idle_reuse"
    } else if c_handoffs == 0 {
        "handoff_other_requests_dial"
    } else {
        "handoff_waiter_delivery"
    };
    w.count(kind);
    if let Some(d) = w.reqs[rid].dial {
        if c_dial != d {
            let outstanding = !w.dials[d].completed || w.dials[d].hs.map(|h| !w.hss[h].completed).unwrap_or(w.dials[d].res == Res3::Ok || w.dials[d].res == Res3::Pending);
            if outstanding && w.dials[d].abandoned_step.is_none() {
                w.dials[d].abandoned_step = Some(step);
                w.count("preemptions");
            }
        }
    }
    let c = &mut w.conns[cid];
    c.holders += 1;
    c.handoffs += 1;
    if !c.h2 {
        c.busy = true;
        c.busy_req = Some(rid);
    }
    let r = &mut w.reqs[rid];
    r.conn = Some(cid);
    r.state = ReqState::Sent;
    r.handoff_step = Some(step);
    if w.h2_owner.get(&r_origin) == Some(&rid) {
        w.h2_owner.remove(&r_origin);
    }
}

/// judged by the stepper after each `Poll(r)`
pub fn on_poll_result(w: &mut World, rid: usize, progressed: bool, wakes_since_last_poll: u32, polls_before: u32) {
    let step = w.step;
    // lost wake-up: the future made progress although nobody woke it since its previous poll
    if progressed && polls_before > 0 && wakes_since_last_poll == 0 {
        let st = w.reqs[rid].state;
        w.violate("C03", format!("lost-wakeup:progress-to-{st:?}-without-wake"), format!("r{rid} progressed at step {step} on an unsolicited poll: no wake-up was delivered since its previous poll"));
    }
    // C14(a): the freed connection must have been taken by now
    if let Some((c0, s)) = w.reqs[rid].expect_conn {
        if s < step && w.reqs[rid].state == ReqState::Checkout {
            w.reqs[rid].expect_conn = None;
            let c = &w.conns[c0];
            if c.alive() && c.open() && c.holders == 0 {
                w.violate("C14", "waiter-did-not-take-freed-connection", format!("r{rid} is still waiting after its poll at step {step} although c{c0} was handed back at step {s}"));
            }
        }
    }
}

/// a request's future resolved with an error: is there a cause the caller could accept?
pub fn on_request_error(w: &mut World, rid: usize, err: &str) {
    if w.reqs[rid].timeout_ms.is_some() && err.contains("timeout") {
        return;
    }
    let r = &w.reqs[rid];
    let own_failed = r.dial.map(|d| w.dials[d].res == Res3::Err || w.dials[d].hs.map(|h| w.hss[h].res == Res3::Err).unwrap_or(false)).unwrap_or(false);
    let waited_on_failed = r
        .waits_on
        .map(|o| {
            let or = &w.reqs[o];
            matches!(or.state, ReqState::Failed | ReqState::Cancelled)
                || or.dial.map(|d| w.dials[d].res == Res3::Err || w.dials[d].hs.map(|h| w.hss[h].res == Res3::Err).unwrap_or(false)).unwrap_or(false)
        })
        .unwrap_or(false);
    // any other in-flight attempt to the origin that failed may have been the one this request was waiting on
    let origin = r.origin.clone();
    let some_failed_attempt = w.dials.iter().any(|d| d.origin == origin && (d.res == Res3::Err || d.hs.map(|h| w.hss[h].res == Res3::Err).unwrap_or(false)))
        || w.reqs.iter().any(|o| o.origin == origin && o.is_owner && o.state == ReqState::Cancelled);
    if own_failed || waited_on_failed {
        w.count("errors_with_cause");
        return;
    }
    let class = if err.contains("closed") || err.contains("Unavailable") { "unavailable" } else { "other" };
    if some_failed_attempt && r.dial.is_none() {
        w.count("errors_with_plausible_cause");
        return;
    }
    let sent = r.state == ReqState::Sent;
    w.violate(
        "C01",
        format!("spurious-error:{class}:{}", if sent { "after-handoff" } else { "during-checkout" }),
        format!("r{rid} resolved Err({err}) although no connection attempt it depended on failed and it was not cancelled"),
    );
}

pub struct CancelCtx {
    h2_handles: Vec<(usize, u32)>,
    healthy_before: Vec<usize>,
    was_checkout: bool,
}

pub fn before_cancel(w: &mut World, rid: usize) -> CancelCtx {
    let origin = w.reqs[rid].origin.clone();
    let healthy_before = w.conns.iter().filter(|c| c.origin == origin && c.alive() && c.is_open() && c.holders == 0).map(|c| c.id).collect();
    let was_checkout = w.reqs[rid].state == ReqState::Checkout;
    let h2_handles = w.conns.iter().filter(|c| c.h2).map(|c| (c.id, c.live_handles)).collect();
    CancelCtx { h2_handles, healthy_before, was_checkout }
}

pub fn after_cancel(w: &mut World, rid: usize, ctx: CancelCtx) {
    let step = w.step;
    if w.cfg.with_pool && ctx.was_checkout {
        for c in ctx.healthy_before {
            if !w.conns[c].alive() && w.conns[c].open() {
                let how = if w.reqs[rid].avail_at_issue.contains(&c) {
                    "popped-at-issue"
                } else if w.reqs[rid].expect_conn.map(|(x, _)| x) == Some(c) {
                    "delivered-to-its-waiter"
                } else {
                    "other"
                };
                w.conns[c].destroyed_by_cancel = true;
                w.violate("C04", format!("R5:cancel-destroyed-healthy-connection:{how}"), format!("cancelling r{rid}, which never used a connection, dropped open idle c{c}"));
            }
        }
    }
    if w.cfg.with_pool && ctx.was_checkout && w.reqs[rid].polls == 0 {
        // an HTTP/2 idle entry popped at issue and never re-registered dies with the request
        let popped: Vec<usize> = w.reqs[rid].avail_at_issue.iter().copied().filter(|c| w.conns[*c].h2 && w.conns[*c].open() && w.conns[*c].in_pool).collect();
        let others_popped = |w: &World, c: usize| w.reqs.iter().any(|r| r.id != rid && r.state == ReqState::Checkout && r.polls == 0 && r.avail_at_issue.contains(&c));
        for c in popped {
            if ctx.h2_handles.iter().any(|(id, n)| *id == c && w.conns[c].live_handles < *n) && !others_popped(w, c) {
                w.conns[c].in_pool = false;
                if w.conns[c].alive() {
                    w.violate("C04", "R5:cancel-destroyed-healthy-connection:popped-at-issue", format!("cancelling r{rid}, which never used a connection, dropped the pool's idle entry for open HTTP/2 connection c{c}"));
                }
            }
        }
    }
    let r = &mut w.reqs[rid];
    r.state = ReqState::Cancelled;
    r.cancelled_step = Some(step);
    r.expect_conn = None;
    if let Some(d) = r.dial {
        let outstanding = !w.dials[d].completed || w.dials[d].hs.map(|h| !w.hss[h].completed).unwrap_or(w.dials[d].res != Res3::Err);
        if outstanding && ctx.was_checkout && w.dials[d].abandoned_step.is_none() {
            w.dials[d].abandoned_step = Some(step);
            w.count("cancels_with_outstanding_dial");
        }
    }
}

/// invariants checked after every step, with the pool's own view (hook) in hand
pub fn post_step(w: &mut World, snapshot: &[hyperdriver::verif_hooks::PoolEntry]) {
    if !w.cfg.with_pool {
        return;
    }
    let max = w.cfg.max_idle_per_host;
    for e in snapshot {
        if e.idle > max {
            w.violate("C15", "idle-list-exceeds-max-idle-per-host", format!("pool retains {} idle connections for {} with max_idle_per_host={max}", e.idle, e.key));
        }
    }
    // boundary observation (no hook): connections nobody holds and nobody waits for are retained by the pool
    let origins: Vec<String> = w.cfg.origins.iter().map(|o| origin_of(&o.uri.parse().unwrap())).collect();
    for o in origins {
        if waiting_reqs(w, &o).next().is_some() {
            continue;
        }
        let retained = w
            .conns
            .iter()
            .filter(|c| c.origin == o && c.alive() && c.holders == 0 && c.is_open() && !c.h2 && c.to_idle_at_ready && c.ready_reported_step.is_some() && c.ready_reported_step >= c.released_step)
            .count();
        if retained > max {
            w.violate("C15", "retained-idle-connections-exceed-max(boundary)", format!("{retained} released, ready, open HTTP/1 connections to {o} are kept alive with max_idle_per_host={max}"));
        }
    }
    // C14 (b)/(c): what happens to an abandoned connection attempt
    let cont = w.cfg.continue_after_preemption;
    let step = w.step;
    let mut v: Vec<(String, String)> = vec![];
    for d in &w.dials {
        let Some(ab) = d.abandoned_step else { continue };
        let dial_cut = d.dropped_step.is_some() && !d.completed;
        let hs_cut = d.hs.map(|h| w.hss[h].dropped_step.is_some() && !w.hss[h].completed).unwrap_or(false);
        let dial_live = d.dropped_step.is_none() && !d.completed;
        let hs_live = d.hs.map(|h| w.hss[h].dropped_step.is_none() && !w.hss[h].completed).unwrap_or(false);
        if cont {
            if dial_cut || hs_cut {
                v.push(("abandoned-attempt-dropped-despite-continue_after_preemption".into(), format!("d{} abandoned at step {ab} was dropped before completing (continue_after_preemption=true)", d.id)));
            }
        } else if (dial_live || hs_live) && step >= ab {
            v.push(("abandoned-attempt-kept-running-with-continue_after_preemption-off".into(), format!("d{} abandoned at step {ab} is still running at step {step} (continue_after_preemption=false)", d.id)));
        }
    }
    for (sig, msg) in v {
        if !w.violations.iter().any(|x| x.message == msg) {
            w.violate("C14", sig, msg);
        }
    }
}
