//! Online monitors of PoolLab. Every function runs under the world lock, in the same critical
//! section as the shadow-state update it judges, so the monitors are not themselves racy.

use super::*;

pub const EXPIRY_MARGIN_MS: u64 = 30;

fn waiting_reqs<'a>(w: &'a World, origin: &'a str) -> impl Iterator<Item = &'a ReqRec> + 'a {
    w.reqs.iter().filter(move |r| r.origin == origin && r.state == ReqState::Checkout)
}

/// connections of `origin` that the pool must be holding in its idle list right now
pub fn idle_available(w: &World, origin: &str) -> Vec<usize> {
    if !w.cfg.with_pool || w.cfg.max_idle_per_host == 0 {
        return vec![];
    }
    let now = Instant::now();
    w.conns
        .iter()
        .filter(|c| c.origin == origin && c.alive() && (c.h2 || c.holders == 0) && c.is_open())
        .filter(|c| {
            if c.h2 {
                // registered with the pool (register_connected / push call reuse())
                c.in_pool && !reserved_h2(w, c.id)
            } else {
                c.to_idle_at_ready
                    && c.ready_reported_step.is_some()
                    && c.ready_reported_step >= c.released_step
            }
        })
        .filter(|c| match (w.cfg.idle_timeout_ms, c.ready_instant) {
            // only connections that are clearly not expired count as available
            (Some(t), Some(at)) if t > 0 && !c.h2 => (now.duration_since(at).as_millis() as u64) + EXPIRY_MARGIN_MS < t,
            (Some(t), None) if t > 0 && !c.h2 => false,
            // HTTP/2: the pool's entry was stamped at or after `refreshed_instant`
            (Some(t), _) if t > 0 && c.h2 => t >= 5_000 || c.refreshed_instant.map(|at| (now.duration_since(at).as_millis() as u64) + EXPIRY_MARGIN_MS < t).unwrap_or(false),
            _ => true,
        })
        .map(|c| c.id)
        .collect()
}

/// an HTTP/2 connection that a request popped from the idle list at issue time and has not
/// re-registered yet (the request has not been polled)
fn reserved_h2(w: &World, cid: usize) -> bool {
    w.reqs.iter().any(|r| r.state == ReqState::Checkout && r.polls == 0 && r.avail_at_issue.contains(&cid))
}

pub fn on_issue(w: &mut World, rid: usize) {
    let origin = w.reqs[rid].origin.clone();
    let h2 = w.reqs[rid].h2;
    if !w.cfg.with_pool || w.auto.is_some() || w.ambiguous_spelling {
        return;
    }
    // candidates by shadow state; requests that are still checking out and popped a connection at their
    // own issue each hold one of them (which one is the pool's choice)
    let candidates = idle_available(w, &origin);
    // every request that is still checking out and popped a connection at its own issue holds one element of its
    // candidate list; which one is the pool's choice, so only connections outside all those lists are certainly idle
    let maybe_taken: Vec<usize> = w.reqs.iter().filter(|r| r.id != rid && r.origin == origin && r.state == ReqState::Checkout).flat_map(|r| r.avail_at_issue.iter().copied()).collect();
    let certainly_idle = candidates.iter().any(|c| !maybe_taken.contains(c));
    if !candidates.is_empty() {
        w.reqs[rid].avail_at_issue = candidates;
        w.reqs[rid].must_use_idle = certainly_idle;
        if certainly_idle {
            w.count("issue_with_idle_available");
        }
    }
    if h2 && w.reqs[rid].avail_at_issue.is_empty() {
        let owner = w.h2_owner.get(&origin).copied().filter(|o| w.reqs[*o].state == ReqState::Checkout);
        match owner {
            Some(o) => {
                w.reqs[rid].waits_on = Some(o);
                w.count("issue_h2_pure_waiter");
            }
            None => {
                w.reqs[rid].is_owner = true;
                w.h2_owner.insert(origin, rid);
            }
        }
    }
}

pub fn on_dial_created(w: &mut World, did: usize) {
    let Some(rid) = w.dials[did].req.filter(|r| *r < w.reqs.len()) else {
        return;
    };
    let origin = w.reqs[rid].origin.clone();
    if let Some(prev) = w.reqs[rid].dial {
        w.violate("C04", "R4:request-dialed-twice", format!("r{rid} started dial d{did} although it already started d{prev}"));
    }
    w.reqs[rid].dial = Some(did);
    if !w.cfg.with_pool || w.auto.is_some() || w.ambiguous_spelling {
        // the remaining rules reason about atomic steps; under real threads only R4 is judged
        return;
    }
    if w.reqs[rid].state != ReqState::Checkout {
        // R6: the request is no longer waiting for a connection (served or cancelled) and had not started a
        // dial of its own: nothing was in flight that could be "continued in the background"
        let st = w.reqs[rid].state;
        let served = matches!(st, ReqState::Sent | ReqState::Done | ReqState::Failed);
        w.violate(
            "C04",
            format!("R6:dial-started-after-request-was-{}", if served { "served" } else { "cancelled" }),
            format!("r{rid} is {st:?} and never started a connection attempt, yet transport connect d{did} was started on its behalf afterwards"),
        );
        return;
    }
    // R1
    if w.reqs[rid].must_use_idle {
        // the obligation is void once somebody else was given the connection in the meantime (a pool may look at the
        // idle list when the request is issued or when it is first polled)
        let issued = w.reqs[rid].issued_step;
        let still = w.reqs[rid].avail_at_issue.iter().all(|c| w.conns[*c].open() && w.conns[*c].alive())
            && w.reqs[rid].avail_at_issue.iter().any(|c| {
                let c = &w.conns[*c];
                (c.h2 || (c.holders == 0 && !c.busy)) && c.last_handoff_step.map(|s| s <= issued).unwrap_or(true)
            });
        if still {
            let av = w.reqs[rid].avail_at_issue.clone();
            w.violate("C04", "R1:dialed-although-idle-connection-available", format!("r{rid} started dial d{did} although connections {av:?} were idle-available when it was issued"));
        } else {
            // the pool itself threw an available connection away while it looked at the idle list for this request:
            // open (the peer never closed it), certainly unexpired, and its last handle dropped in the issue step
            let issued = w.reqs[rid].issued_step;
            let discarded: Vec<usize> = w.reqs[rid].avail_at_issue.iter().copied().filter(|c| w.conns[*c].closed_step.is_none() && !w.conns[*c].upgraded && w.conns[*c].dropped_step == Some(issued)).collect();
            if !discarded.is_empty() && discarded.len() == w.reqs[rid].avail_at_issue.len() {
                w.violate("C04", "R1:pool-discarded-healthy-idle-connection-and-dialed", format!("r{rid} started dial d{did}; connections {discarded:?} were open, unexpired and idle-available when it was issued and were dropped by the pool in that very step"));
            }
        }
    }
    // R7: with continue_after_preemption the attempt of a cancelled owner goes on in the background, so the requests
    // that waited for it keep waiting for it; one of them dialing means the cancel cost an additional dial
    if w.cfg.continue_after_preemption {
        if let Some(o) = w.reqs[rid].waits_on {
            let owner = &w.reqs[o];
            if owner.state == ReqState::Cancelled {
                if let Some(od) = owner.dial {
                    let d = &w.dials[od];
                    let failed = d.res == Res3::Err || d.hs.map(|h| w.hss[h].res == Res3::Err).unwrap_or(false);
                    let produced = w.conns.iter().any(|c| c.dial == od);
                    let cut = (d.dropped_step.is_some() && !d.completed) || d.hs.map(|h| w.hss[h].dropped_step.is_some() && !w.hss[h].completed).unwrap_or(false);
                    if !failed && !produced && cut {
                        w.violate(
                            "C04",
                            "R7:cancelled-owner-attempt-dropped-and-waiter-dials",
                            format!("r{rid} waited for r{o}'s attempt d{od}; r{o} was cancelled after the attempt had started, the attempt was dropped instead of continuing in the background (continue_after_preemption=true) and r{rid} now starts dial d{did}: the cancel caused an additional dial"),
                        );
                    }
                }
            }
        }
    }
    if w.reqs[rid].h2 {
        // R2: another HTTP/2 connection attempt to this origin is in flight (dial or handshake outstanding,
        // whether its request still waits or the attempt continues in the background)
        let in_flight: Vec<usize> = w
            .dials
            .iter()
            .filter(|d| d.id != did && d.origin == origin && d.h2_req)
            .filter(|d| {
                let dial_running = d.dropped_step.is_none() && !d.completed && d.res != Res3::Err;
                let hs_running = d.completed && d.res == Res3::Ok && d.hs.map(|h| w.hss[h].dropped_step.is_none() && !w.hss[h].completed && w.hss[h].res != Res3::Err).unwrap_or(false);
                dial_running || hs_running
            })
            .map(|d| d.id)
            .collect();
        if !in_flight.is_empty() {
            w.violate(
                "C04",
                "R2:h2-request-dialed-while-attempt-in-flight",
                format!("HTTP/2 request r{rid} started dial d{did} while HTTP/2 attempt(s) {in_flight:?} to {origin} are in flight"),
            );
        }
        // R3
        let pooled = w.cfg.max_idle_per_host > 0;
        let now = Instant::now();
        let fresh = |c: &ConnRec| match w.cfg.idle_timeout_ms {
            Some(t) if t > 0 && t < 5_000 => c.refreshed_instant.map(|at| (now.duration_since(at).as_millis() as u64) + EXPIRY_MARGIN_MS < t).unwrap_or(false),
            _ => true,
        };
        let existing: Vec<usize> = w.conns.iter().filter(|c| pooled && c.origin == origin && c.h2 && c.alive() && c.open() && c.in_pool && fresh(c)).map(|c| c.id).collect();
        if let Some(c) = existing.first().copied() {
            let window = reserved_h2(w, c);
            w.violate(
                "C04",
                format!("R3:h2-request-dialed-although-h2-connection-exists{}", if window { ":popped-by-unpolled-request" } else { "" }),
                format!("HTTP/2 request r{rid} started dial d{did} although open HTTP/2 connection(s) {existing:?} to {origin} exist in the pool"),
            );
        }
    }
}

pub fn on_conn_dropped(_w: &mut World, _cid: usize) {}

/// requests of `origin` whose sender sits in the pool's waiter queue (live receiver)
fn own_dial_outstanding(w: &World, rid: usize) -> bool {
    let r = &w.reqs[rid];
    r.is_owner
        && r.dial
            .map(|d| {
                let d = &w.dials[d];
                d.abandoned_step.is_none() && d.dropped_step.is_none() && (!d.completed || d.hs.map(|h| !w.hss[h].completed && w.hss[h].dropped_step.is_none()).unwrap_or(false))
            })
            .unwrap_or(false)
}

fn live_waiters(w: &World, origin: &str, not: Option<usize>) -> Vec<usize> {
    // a request that may or may not have popped an idle connection at issue counts as (possibly) waiting
    waiting_reqs(w, origin).filter(|r| !r.must_use_idle && Some(r.id) != not).map(|r| r.id).collect()
}

pub fn on_conn_ready(w: &mut World, cid: usize) {
    // a new hand-back supersedes whatever was expected of this connection before
    w.offers.retain(|o| o.conn != cid);
    if !w.cfg.with_pool || w.conns[cid].h2 || w.auto.is_some() {
        w.conns[cid].to_idle_at_ready = true;
        return;
    }
    offer(w, cid, false);
}

/// A connection is being pushed into the pool. If requests are waiting, the pool hands it to one of them
/// (HTTP/1: to exactly one, the first live waiter of its queue; HTTP/2: a clone to every live waiter).
pub fn offer(w: &mut World, cid: usize, strict_each: bool) {
    if w.ambiguous_spelling {
        return;
    }
    let origin = w.conns[cid].origin.clone();
    let step = w.step;
    // the request whose own attempt produced this connection closes its receiver before registering it
    let producer = w.dials[w.conns[cid].dial].req.filter(|r| w.reqs[*r].state == ReqState::Checkout && w.reqs[*r].dial == Some(w.conns[cid].dial));
    let mut waiters = live_waiters(w, &origin, producer);
    if strict_each {
        // only waiters that certainly have nothing in their channel yet
        waiters.retain(|r| !w.offers.iter().any(|o| o.waiters.contains(r)));
    }
    w.conns[cid].to_idle_at_ready = waiters.is_empty();
    if !waiters.is_empty() {
        for x in &waiters {
            w.reqs[*x].offered_since_poll.push(cid);
        }
        w.offers.push(Offer { conn: cid, step, waiters, polled: vec![], strict_each });
        w.count("c14_freed_connection_offered_to_waiters");
    }
}

pub fn offer_to_next_waiter(w: &mut World, cid: usize) {
    // HTTP/2 registration: called on the second reuse() of a step (first delivery to a waiter)
    // with max_idle_per_host = 0 nothing is retained, so a waiter that was released from the queue (and
    // has not re-joined yet) legitimately misses the registration
    if w.auto.is_none() && w.cfg.max_idle_per_host > 0 && !w.offers.iter().any(|o| o.conn == cid && o.step == w.step) {
        offer(w, cid, true);
    }
}

/// judge the offers `rid` was part of, after a poll that left it waiting
fn judge_offers_after_poll(w: &mut World, rid: usize) {
    let step = w.step;
    let mut verdicts: Vec<(String, String)> = vec![];
    let mut i = 0;
    while i < w.offers.len() {
        let (conn, ostep, strict) = (w.offers[i].conn, w.offers[i].step, w.offers[i].strict_each);
        if ostep >= step || !w.offers[i].waiters.contains(&rid) {
            i += 1;
            continue;
        }
        if !w.offers[i].polled.contains(&rid) {
            w.offers[i].polled.push(rid);
        }
        let c = &w.conns[conn];
        let still_idle = c.alive() && c.is_open() && (c.h2 || c.holders == 0);
        if !still_idle {
            w.offers.remove(i);
            continue;
        }
        if strict {
            verdicts.push((
                "waiter-did-not-take-shared-connection".into(),
                format!("r{rid} is still waiting after its poll at step {step} although HTTP/2 connection c{conn} was registered with the pool at step {ostep} while it was waiting"),
            ));
            w.offers[i].waiters.retain(|x| *x != rid);
            if w.offers[i].waiters.is_empty() {
                w.offers.remove(i);
                continue;
            }
        }
        i += 1;
    }
    for (sig, msg) in verdicts {
        w.violate("C14", sig, msg);
    }
}

fn origin_diff(a: &str, b: &str) -> &'static str {
    let (sa, ha) = a.split_once("://").unwrap_or(("", a));
    let (sb, hb) = b.split_once("://").unwrap_or(("", b));
    if sa != sb && ha == hb {
        "scheme-only"
    } else {
        let host = |h: &str| h.rsplit_once(':').filter(|(_, p)| p.chars().all(|c| c.is_ascii_digit())).map(|(h, _)| h.to_string()).unwrap_or(h.to_string());
        if host(ha) == host(hb) {
            "port"
        } else {
            "host"
        }
    }
}

pub fn on_handoff(w: &mut World, rid: usize, cid: usize, is_reused: bool, uri: &http::Uri) {
    let step = w.tick();
    w.count("handoffs");
    let r_origin = w.reqs[rid].origin.clone();
    let c = &w.conns[cid];
    let (c_origin, c_h2, c_holders, c_busy, c_upgraded, c_handoffs, c_closed, c_ready, c_released, c_ready_inst, c_to_idle, c_dial) =
        (c.origin.clone(), c.h2, c.holders, c.busy, c.upgraded, c.handoffs, c.closed_step, c.ready_reported_step, c.released_step, c.ready_instant, c.to_idle_at_ready, c.dial);
    w.ev(|| format!("HANDOFF r{rid} -> c{cid} (reused={is_reused} h2={c_h2} holders={c_holders} busy={c_busy} closed={c_closed:?})"));

    // ---- C01 (pool part)
    w.reqs[rid].handoffs += 1;
    if w.reqs[rid].handoffs > 1 {
        w.violate("C01", "handoff:request-handed-off-twice", format!("r{rid} reached the inner service twice"));
    }
    if w.reqs[rid].state != ReqState::Checkout {
        let st = w.reqs[rid].state;
        w.violate("C01", format!("handoff:request-in-state-{st:?}"), format!("r{rid} reached the inner service in state {st:?}"));
    }
    if origin_of(uri) != r_origin {
        w.violate("C01", "handoff:request-uri-changed", format!("r{rid} issued for {r_origin} arrived with uri {uri}"));
    }

    // ---- C06
    if origin_norm(&c_origin) != origin_norm(&r_origin) {
        w.violate(
            "C06",
            format!("cross-origin-handoff:{}", origin_diff(&origin_norm(&c_origin), &origin_norm(&r_origin))),
            format!("r{rid} for {r_origin} was given c{cid} which was dialed for {c_origin}"),
        );
    }

    // ---- C02
    if !c_h2 {
        if c_holders > 0 {
            w.violate("C02", "h1-handed-out-while-held", format!("c{cid} given to r{rid} while {c_holders} other request(s) hold it"));
        }
        if c_busy {
            w.violate("C02", "h1-handed-out-before-response-consumed", format!("c{cid} given to r{rid} while the previous response body is outstanding"));
        }
        if c_handoffs > 0 && !c_busy && c_holders == 0 && (c_ready.is_none() || c_ready < c_released) {
            w.violate("C02", "h1-handed-out-before-reporting-ready", format!("c{cid} given to r{rid}: released at {c_released:?}, last ready report {c_ready:?}"));
        }
    }
    if c_upgraded {
        w.violate("C02", "upgraded-connection-handed-out", format!("c{cid} was taken over by an upgrade and was given to r{rid}"));
    }

    // ---- C05
    if let Some(cs) = c_closed {
        let issued = w.reqs[rid].issued_step;
        // real threads: the pool's "is it open?" look and its hand-over are not one atomic step with respect to the
        // peer (nor can they be), so only a close that lies well before the request's issue is judged there
        let long_before = w.conns[cid].closed_instant.map(|at| w.reqs[rid].issued_instant.saturating_duration_since(at) > std::time::Duration::from_millis(250)).unwrap_or(false);
        if w.auto.is_some() && cs < issued && c_handoffs > 0 && !long_before {
            w.count("c05_close_shortly_before_issue_not_judged_under_real_threads");
        } else if cs < issued && (w.auto.is_none() || c_handoffs > 0) {
            w.violate("C05", "closed-before-issue", format!("c{cid} closed at step {cs}, given to r{rid} issued at step {issued}"));
        } else if w.auto.is_none() && !c_h2 && c_handoffs > 0 && (c_released.map(|rel| cs <= rel).unwrap_or(false) || c_ready.is_none() || c_ready < c_released) {
            w.violate("C05", "closed-before-handback", format!("c{cid} closed at step {cs} before it was handed back (released {c_released:?}, ready {c_ready:?}), given to r{rid}"));
        } else {
            w.count("c05_closed_after_issue_handoffs_not_judged");
        }
    }
    if let (Some(t), Some(at)) = (w.cfg.idle_timeout_ms, c_ready_inst) {
        let issued_at = w.reqs[rid].issued_instant;
        if t > 0 && c_handoffs > 0 && c_to_idle && !c_h2 && issued_at > at {
            let idle_ms = issued_at.duration_since(at).as_millis() as u64;
            if idle_ms > t + EXPIRY_MARGIN_MS {
                w.violate("C05", "expired-connection-handed-out", format!("c{cid} sat idle {idle_ms}ms > idle_timeout {t}ms and was given to r{rid}"));
            } else if idle_ms + EXPIRY_MARGIN_MS < t {
                w.count("c05_unexpired_reuse");
            } else {
                w.count("c05_expiry_grey_zone");
            }
        }
    }

    // HTTP/2: every operation that can stamp the pool's entry for this connection happened at or before the
    // last operation preceding this request's issue; if the connection was registered before that and the gap up
    // to the issue exceeds the idle timeout, the entry was expired when the request looked at the idle list
    if let (Some(t), true) = (w.cfg.idle_timeout_ms, c_h2) {
        let issued_at = w.reqs[rid].issued_instant;
        let (reg, prev) = (w.conns[cid].registered_instant, w.reqs[rid].prev_activity);
        if let (Some(reg), Some(prev)) = (reg, prev) {
            if t > 0 && w.auto.is_none() && reg <= prev && issued_at > prev {
                let idle_ms = issued_at.duration_since(prev).as_millis() as u64;
                if idle_ms > t + EXPIRY_MARGIN_MS {
                    w.violate("C05", "expired-h2-connection-handed-out", format!("HTTP/2 connection c{cid} was unused for at least {idle_ms}ms > idle_timeout {t}ms when r{rid} was issued, and was given to it"));
                } else if idle_ms + EXPIRY_MARGIN_MS < t {
                    w.count("c05_unexpired_h2_reuse");
                }
            }
        }
        if w.conns[cid].in_pool {
            let at = w.conns[cid].refreshed_instant.map(|x| x.max(issued_at)).unwrap_or(issued_at);
            w.conns[cid].refreshed_instant = Some(at);
        }
    }

    // ---- C04 R3(b): an HTTP/2 request is carried on the existing HTTP/2 connection
    // ---- C14(a): offers
    {
        let before = w.offers.len();
        if w.offers.iter().any(|o| o.conn == cid && o.waiters.contains(&rid)) {
            w.count("c14_waiter_served_by_freed_connection");
        }
        if !c_h2 {
            w.offers.retain(|o| o.conn != cid);
        }
        for o in w.offers.iter_mut() {
            o.waiters.retain(|x| *x != rid);
        }
        w.offers.retain(|o| !o.waiters.is_empty());
        let _ = before;
    }

    // ---- bookkeeping
    let kind = if c_handoffs == 0 && Some(c_dial) == w.reqs[rid].dial {
        "handoff_fresh_own_dial"
    } else if c_h2 {
        "handoff_h2_shared"
    } else if !w.reqs[rid].avail_at_issue.is_empty() {
        "handoff_idle_reuse"
    } else if c_handoffs == 0 {
        "handoff_other_requests_dial"
    } else {
        "handoff_waiter_delivery"
    };
    w.count(kind);
    if let Some(d) = w.reqs[rid].dial {
        if c_dial != d {
            let outstanding = !w.dials[d].completed || w.dials[d].hs.map(|h| !w.hss[h].completed).unwrap_or(w.dials[d].res == Res3::Ok || w.dials[d].res == Res3::Pending);
            if outstanding && w.dials[d].abandoned_step.is_none() {
                w.dials[d].abandoned_step = Some(step);
                w.count("preemptions");
            }
        }
    }
    let c = &mut w.conns[cid];
    c.holders += 1;
    c.handoffs += 1;
    c.last_handoff_step = Some(step);
    if !c.h2 {
        c.busy = true;
        c.busy_req = Some(rid);
    }
    let r = &mut w.reqs[rid];
    r.conn = Some(cid);
    r.state = ReqState::Sent;
    r.handoff_step = Some(step);
    if w.h2_owner.get(&r_origin) == Some(&rid) {
        w.h2_owner.remove(&r_origin);
    }
}

/// judged by the stepper after each `Poll(r)`
pub fn on_poll_result(w: &mut World, rid: usize, progressed: bool, wakes_since_last_poll: u32, polls_before: u32, woken_during_poll: bool) {
    let step = w.step;
    // lost wake-up: the future made progress although nobody woke it since its previous poll
    if progressed && polls_before > 0 && wakes_since_last_poll == 0 {
        let st = w.reqs[rid].state;
        w.violate("C03", format!("lost-wakeup:progress-to-{st:?}-without-wake"), format!("r{rid} progressed at step {step} on an unsolicited poll: no wake-up was delivered since its previous poll"));
        // C14: the progress was a freed connection taken while the request's own dial is still outstanding; without a
        // wake-up the request is only served if something else happens to poll it
        let r = &w.reqs[rid];
        let preempted = st == ReqState::Sent && !r.responded && r.dial.is_some() && r.conn.map(|c| Some(w.conns[c].dial) != r.dial).unwrap_or(false);
        if preempted {
            let (c, d) = (r.conn.unwrap(), r.dial.unwrap());
            w.violate("C14", "released-connection-does-not-wake-the-waiting-request", format!("r{rid} (own dial d{d} outstanding) took the released connection c{c} only because it was polled unsolicited at step {step}: the release delivered no wake-up"));
        }
    }
    // C14(a): a connection handed back while this request was waiting must have found a taker by now
    if w.reqs[rid].state == ReqState::Checkout {
        // C14 fixes "its next poll" only for a request that waits for its OWN attempt. A request that waits on
        // somebody else's attempt and woke itself during this poll has asked to be polled again (e.g. it re-joins the
        // pool one turn later): it is judged at that poll.
        if w.reqs[rid].dial.is_none() && woken_during_poll {
            w.count("c14_pure_waiter_judged_at_its_next_poll");
        } else {
            judge_offers_after_poll(w, rid);
        }
    }
}

/// a request's future resolved with an error: is there a cause the caller could accept?
pub fn on_request_error(w: &mut World, rid: usize, err: &str) {
    if w.reqs[rid].timeout_ms.is_some() && err.contains("RequestTimeout") {
        return;
    }
    let r = &w.reqs[rid];
    let own_failed = r.dial.map(|d| w.dials[d].res == Res3::Err || w.dials[d].hs.map(|h| w.hss[h].res == Res3::Err).unwrap_or(false)).unwrap_or(false);
    let waited_on_failed = r
        .waits_on
        .map(|o| {
            let or = &w.reqs[o];
            matches!(or.state, ReqState::Failed | ReqState::Cancelled)
                || or.dial.map(|d| w.dials[d].res == Res3::Err || w.dials[d].hs.map(|h| w.hss[h].res == Res3::Err).unwrap_or(false)).unwrap_or(false)
        })
        .unwrap_or(false);
    // any other in-flight attempt to the origin that failed may have been the one this request was waiting on
    let origin = r.origin.clone();
    let some_failed_attempt = w.dials.iter().any(|d| d.origin == origin && (d.res == Res3::Err || d.hs.map(|h| w.hss[h].res == Res3::Err).unwrap_or(false)))
        || w.reqs.iter().any(|o| o.origin == origin && o.is_owner && o.state == ReqState::Cancelled);
    if own_failed || waited_on_failed {
        w.count("errors_with_cause");
        return;
    }
    let class = if err.contains("closed") || err.contains("Unavailable") { "unavailable" } else { "other" };
    if some_failed_attempt && r.dial.is_none() {
        w.count("errors_with_plausible_cause");
        return;
    }
    let sent = r.state == ReqState::Sent;
    w.violate(
        "C01",
        format!("spurious-error:{class}:{}", if sent { "after-handoff" } else { "during-checkout" }),
        format!("r{rid} resolved Err({err}) although no connection attempt it depended on failed and it was not cancelled"),
    );
}

pub struct CancelCtx {
    healthy_before: Vec<usize>,
    was_checkout: bool,
}

pub fn before_cancel(w: &mut World, rid: usize) -> CancelCtx {
    let origin = w.reqs[rid].origin.clone();
    let healthy_before = w.conns.iter().filter(|c| c.origin == origin && c.alive() && c.is_open() && c.holders == 0).map(|c| c.id).collect();
    let was_checkout = w.reqs[rid].state == ReqState::Checkout;
    CancelCtx { healthy_before, was_checkout }
}

pub fn after_cancel(w: &mut World, rid: usize, ctx: CancelCtx) {
    let step = w.step;
    if w.cfg.with_pool && ctx.was_checkout && w.cfg.max_idle_per_host > 0 {
        for c in ctx.healthy_before {
            // at capacity the pool may drop the surplus connection (C15)
            let origin = w.conns[c].origin.clone();
            // (an HTTP/2 connection registered with the pool occupies a slot of the idle list also while requests hold it)
            let others_idle = w.conns.iter().filter(|x| x.id != c && x.origin == origin && x.alive() && x.is_open() && (x.holders == 0 || (x.h2 && x.in_pool))).count();
            if !w.conns[c].alive() && w.conns[c].open() && others_idle < w.cfg.max_idle_per_host {
                let how = if w.reqs[rid].avail_at_issue.contains(&c) {
                    "popped-at-issue"
                } else if w.offers.iter().any(|o| o.conn == c && o.waiters.contains(&rid)) {
                    "delivered-to-its-waiter"
                } else {
                    "other"
                };
                w.conns[c].destroyed_by_cancel = true;
                w.violate("C04", format!("R5:cancel-destroyed-healthy-connection:{how}"), format!("cancelling r{rid}, which never used a connection, dropped open idle c{c}"));
            }
        }
    }
    // a correct pool gives a connection this request popped (but never used) back: to the next waiter or the idle list
    if w.cfg.with_pool && ctx.was_checkout && w.reqs[rid].handoffs == 0 {
        let popped: Vec<usize> = w.reqs[rid].avail_at_issue.iter().copied().filter(|c| !w.conns[*c].h2 && w.conns[*c].alive() && w.conns[*c].is_open() && w.conns[*c].holders == 0).collect();
        if popped.len() == 1 && w.reqs[rid].must_use_idle {
            let c = popped[0];
            let origin = w.conns[c].origin.clone();
            let _ = origin;
            w.reqs[rid].state = ReqState::Cancelled;
            w.offers.retain(|o| o.conn != c);
            offer(w, c, false);
        } else {
            // which of several candidates was popped is the pool's choice: stop reasoning about them
            for c in popped {
                w.conns[c].to_idle_at_ready = false;
            }
        }
    }
    let r = &mut w.reqs[rid];
    r.state = ReqState::Cancelled;
    r.cancelled_step = Some(step);
    // an HTTP/1 connection offered to a set containing the cancelled waiter may sit in its channel: it comes back
    // through a fresh readiness report, which creates a fresh offer
    w.offers.retain(|o| o.strict_each || !o.waiters.contains(&rid));
    for o in w.offers.iter_mut() {
        o.waiters.retain(|x| *x != rid);
    }
    w.offers.retain(|o| !o.waiters.is_empty());
    if let Some(d) = r.dial {
        let outstanding = !w.dials[d].completed || w.dials[d].hs.map(|h| !w.hss[h].completed).unwrap_or(w.dials[d].res != Res3::Err);
        if outstanding && ctx.was_checkout && w.dials[d].abandoned_step.is_none() {
            w.dials[d].abandoned_step = Some(step);
            w.count("cancels_with_outstanding_dial");
        }
    }
}

fn key_matches(key: &str, origin: &str) -> bool {
    // Debug rendering of UriKey: UriKey("http", Some(a.test))
    let (scheme, auth) = origin.split_once("://").unwrap_or(("", origin));
    let k = key.to_ascii_lowercase();
    k.contains(&format!("\"{scheme}\"")) && k.contains(&format!("some({auth})"))
}

/// invariants checked after every step, with the pool's own view (hook) in hand
pub fn post_step(w: &mut World, snapshot: &[hyperdriver::verif_hooks::PoolEntry]) {
    if !w.cfg.with_pool {
        return;
    }
    let max = w.cfg.max_idle_per_host;
    for e in snapshot {
        if e.idle > max {
            w.violate("C15", "idle-list-exceeds-max-idle-per-host", format!("pool retains {} idle connections for {} with max_idle_per_host={max}", e.idle, e.key));
        }
    }
    // boundary observation (no hook): connections nobody holds and nobody waits for are retained by the pool.
    // Grouped by the origin of the connections that exist (worlds with a thousand origins stay cheap).
    if !w.ambiguous_spelling {
        let mut retained: std::collections::BTreeMap<String, usize> = Default::default();
        for c in w.conns.iter().filter(|c| c.alive() && c.holders == 0 && c.is_open() && !c.h2 && c.to_idle_at_ready && c.ready_reported_step.is_some() && c.ready_reported_step >= c.released_step) {
            *retained.entry(c.origin.clone()).or_default() += 1;
        }
        for (o, n) in retained {
            if n > max && waiting_reqs(w, &o).next().is_none() {
                w.violate("C15", "retained-idle-connections-exceed-max(boundary)", format!("{n} released, ready, open HTTP/1 connections to {o} are kept alive with max_idle_per_host={max}"));
            }
        }
    }
    // C14(a'): a freed HTTP/1 connection was discarded by the pool (the peer did not close it, nobody used it
    // since) although a request that was certainly queued when it was handed back is still waiting and no
    // other freed connection can be sitting in that request's channel. Only requests waiting for their OWN attempt
    // count: a request waiting on somebody else's attempt may have been released from the queue to re-join later.
    {
        let mut verdicts = vec![];
        for o in w.offers.iter().filter(|o| !o.strict_each) {
            let c = &w.conns[o.conn];
            let discarded = !c.alive() && c.open() && c.holders == 0 && !c.busy && !c.h2 && c.ready_reported_step == Some(o.step) && c.last_handoff_step.map(|h| h < o.step).unwrap_or(true) && !c.destroyed_by_cancel;
            if !discarded || c.discard_judged {
                continue;
            }
            if !o.waiters.iter().all(|x| w.reqs[*x].state == ReqState::Checkout) {
                continue;
            }
            let certain: Vec<usize> = o
                .waiters
                .iter()
                .copied()
                .filter(|x| {
                    let r = &w.reqs[*x];
                    r.polls > 0 && r.issued_step < o.step && r.avail_at_issue.is_empty() && own_dial_outstanding(w, *x) && r.offered_since_poll.iter().all(|c| *c == o.conn) && !w.offers.iter().any(|p| p.conn != o.conn && p.waiters.contains(x))
                })
                .collect();
            if certain.is_empty() {
                continue;
            }
            verdicts.push((o.conn, format!("c{} was handed back at step {} while requests {:?} were queued waiting for a connection to {}; the pool dropped it (peer had not closed it) instead of delivering it (max_idle_per_host={max})", o.conn, o.step, certain, c.origin)));
        }
        for (cid, msg) in verdicts {
            w.conns[cid].discard_judged = true;
            w.violate("C14", "freed-connection-dropped-while-requests-wait", msg);
        }
    }
    // C14(a): a freed HTTP/1 connection sits in the pool's idle list although requests that were waiting when it
    // was handed back have been polled since and are still waiting
    {
        let mut verdicts = vec![];
        let mut keep = vec![];
        for o in w.offers.clone() {
            if o.strict_each {
                keep.push(o);
                continue;
            }
            let c = &w.conns[o.conn];
            let still_idle = c.alive() && c.is_open() && c.holders == 0 && c.ready_reported_step == Some(o.step) && c.released_step.map(|r| r <= o.step).unwrap_or(true);
            if !still_idle {
                continue;
            }
            let waiting: Vec<usize> = o.waiters.iter().copied().filter(|x| w.reqs[*x].state == ReqState::Checkout).collect();
            if waiting.is_empty() {
                continue;
            }
            let all_polled = waiting.iter().all(|x| o.polled.contains(x));
            let key_idle = snapshot.iter().filter(|e| key_matches(&e.key, &c.origin)).map(|e| e.idle).sum::<usize>();
            let popped_later = w.reqs.iter().any(|r| r.origin == c.origin && r.issued_step > o.step && r.state == ReqState::Checkout && r.polls == 0);
            if all_polled && key_idle >= 1 && !popped_later {
                verdicts.push(format!("c{} was handed back at step {} while requests {:?} were waiting; they have been polled since and still wait, while the pool's idle list holds {} connection(s) for {}", o.conn, o.step, waiting, key_idle, c.origin));
                continue;
            }
            keep.push(o);
        }
        w.offers = keep;
        for msg in verdicts {
            w.violate("C14", "freed-connection-idles-while-waiters-keep-waiting", msg);
        }
    }
    // C14 (b)/(c): what happens to an abandoned connection attempt
    let cont = w.cfg.continue_after_preemption;
    let step = w.step;
    let mut v: Vec<(String, String)> = vec![];
    for d in &w.dials {
        let Some(ab) = d.abandoned_step else { continue };
        let dial_cut = d.dropped_step.is_some() && !d.completed;
        let hs_cut = d.hs.map(|h| w.hss[h].dropped_step.is_some() && !w.hss[h].completed).unwrap_or(false);
        let dial_live = d.dropped_step.is_none() && !d.completed;
        let hs_live = d.hs.map(|h| w.hss[h].dropped_step.is_none() && !w.hss[h].completed).unwrap_or(false);
        if cont {
            if dial_cut || hs_cut {
                v.push(("abandoned-attempt-dropped-despite-continue_after_preemption".into(), format!("d{} abandoned at step {ab} was dropped before completing (continue_after_preemption=true)", d.id)));
            }
        } else if (dial_live || hs_live) && step >= ab {
            v.push(("abandoned-attempt-kept-running-with-continue_after_preemption-off".into(), format!("d{} abandoned at step {ab} is still running at step {step} (continue_after_preemption=false)", d.id)));
        }
    }
    for (sig, msg) in v {
        if !w.violations.iter().any(|x| x.message == msg) {
            w.violate("C14", sig, msg);
        }
    }
}


// ---------------------------------------------------------------------------------------------
// C19: the timeout layer around the pooled service (virtual time)
// ---------------------------------------------------------------------------------------------

pub fn stage_of(w: &World, rid: usize) -> &'static str {
    let r = &w.reqs[rid];
    match r.state {
        ReqState::Checkout => match r.dial {
            None if r.polls == 0 => "not-yet-polled",
            None => "waiting-on-another-attempt",
            Some(d) => {
                if !w.dials[d].completed {
                    "waiting-for-own-dial"
                } else {
                    "handshaking"
                }
            }
        },
        ReqState::Sent => "awaiting-response",
        _ => "finished",
    }
}

/// if the inner (pooled) future would resolve when polled right now: the virtual time since when
pub fn inner_would_resolve(w: &World, rid: usize) -> Option<u64> {
    let r = &w.reqs[rid];
    match r.state {
        ReqState::Sent if r.respond.is_some() => r.respond_vtime_ms,
        _ => None,
    }
}

pub fn on_timeout_poll(w: &mut World, rid: usize, outcome: Option<Result<(), String>>, inner_ready: Option<u64>, stage: &'static str, wakes: u32) {
    let Some(d) = w.reqs[rid].timeout_ms else { return };
    let now = w.vnow_ms();
    let deadline = w.reqs[rid].issued_vtime_ms + d;
    w.count(&format!("c19_polls_{}", if now >= deadline { "at_or_after_deadline" } else { "before_deadline" }));
    match outcome {
        None => {
            if now >= deadline {
                w.violate("C19", format!("pending-at-or-after-deadline:{stage}"), format!("r{rid} issued at {}ms with timeout {d}ms is still pending when polled at {now}ms", w.reqs[rid].issued_vtime_ms));
            }
        }
        Some(Err(e)) if e.contains("RequestTimeout") => {
            w.count(&format!("c19_timeout_in_stage_{stage}"));
            if now < deadline {
                w.violate("C19", format!("timeout-before-deadline:{stage}"), format!("r{rid} timed out at {now}ms, deadline {deadline}ms"));
            } else if let Some(since) = inner_ready {
                if since < deadline {
                    w.violate("C19", format!("timeout-although-inner-resolved-first:{stage}"), format!("r{rid} got the timeout error at {now}ms although the inner service had its result ready since {since}ms, before the deadline {deadline}ms"));
                } else {
                    w.count("c19_tie_or_late_inner_result");
                }
            }
            if now >= deadline && wakes == 0 && w.reqs[rid].polls > 1 && now > w.reqs[rid].issued_vtime_ms {
                w.violate("C19", format!("no-wake-at-deadline:{stage}"), format!("r{rid} was not woken when its deadline {deadline}ms passed (polled unsolicited at {now}ms)"));
            }
        }
        Some(Err(e)) => {
            // the inner error must come through unchanged: it is judged by on_request_error (C01 part)
            let _ = e;
            w.count("c19_inner_error_passed_through");
        }
        Some(Ok(())) => {
            w.count("c19_inner_ok_passed_through");
        }
    }
}
