//! Deterministic stepper around the real `ConnectionPoolService`.
//!
//! Everything runs inside one `current_thread` `block_on`; one op = one atomic step with respect to the
//! pool's background tasks (`WhenReady`, delayed checkouts), which only run at `Bg` (a `yield_now`).

use std::future::Future;
use std::pin::Pin;
use std::sync::atomic::{AtomicU32, Ordering};
use std::sync::Arc;
use std::task::{Context, Poll, Wake, Waker};
use std::time::{Duration, Instant};

use http::{Request, Response, Version};
use hyperdriver::client::pool::Config as PoolConfig;
use hyperdriver::client::ConnectionPoolService;
use hyperdriver::verif_hooks::PoolEntry;
use hyperdriver::Body;
use serde_json::{json, Value};
use tower::{Layer, Service};

use super::monitors;
use super::*;

#[derive(Clone, Copy, Debug, PartialEq, Eq, Hash)]
pub enum Op {
    Issue { origin: usize, h2: bool },
    Poll(usize),
    Cancel(usize),
    DialOk(usize),
    DialErr(usize),
    HsOk(usize),
    HsErr(usize),
    Respond(usize),
    RespondUpgrade(usize),
    BodyDone(usize),
    Close(usize),
    Bg,
    Sleep(u64),
    Advance(u64),
}

impl Op {
    pub fn to_json(&self) -> Value {
        match *self {
            Op::Issue { origin, h2 } => json!({"op": "Issue", "origin": origin, "h2": h2}),
            Op::Poll(r) => json!({"op": "Poll", "r": r}),
            Op::Cancel(r) => json!({"op": "Cancel", "r": r}),
            Op::DialOk(d) => json!({"op": "DialOk", "d": d}),
            Op::DialErr(d) => json!({"op": "DialErr", "d": d}),
            Op::HsOk(d) => json!({"op": "HsOk", "d": d}),
            Op::HsErr(d) => json!({"op": "HsErr", "d": d}),
            Op::Respond(r) => json!({"op": "Respond", "r": r}),
            Op::RespondUpgrade(r) => json!({"op": "RespondUpgrade", "r": r}),
            Op::BodyDone(r) => json!({"op": "BodyDone", "r": r}),
            Op::Close(c) => json!({"op": "Close", "c": c}),
            Op::Bg => json!({"op": "Bg"}),
            Op::Sleep(ms) => json!({"op": "Sleep", "ms": ms}),
            Op::Advance(ms) => json!({"op": "Advance", "ms": ms}),
        }
    }
    pub fn from_json(v: &Value) -> Option<Op> {
        let u = |k: &str| v[k].as_u64().map(|x| x as usize);
        Some(match v["op"].as_str()? {
            "Issue" => Op::Issue { origin: u("origin")?, h2: v["h2"].as_bool()? },
            "Poll" => Op::Poll(u("r")?),
            "Cancel" => Op::Cancel(u("r")?),
            "DialOk" => Op::DialOk(u("d")?),
            "DialErr" => Op::DialErr(u("d")?),
            "HsOk" => Op::HsOk(u("d")?),
            "HsErr" => Op::HsErr(u("d")?),
            "Respond" => Op::Respond(u("r")?),
            "RespondUpgrade" => Op::RespondUpgrade(u("r")?),
            "BodyDone" => Op::BodyDone(u("r")?),
            "Close" => Op::Close(u("c")?),
            "Bg" => Op::Bg,
            "Sleep" => Op::Sleep(v["ms"].as_u64()?),
            "Advance" => Op::Advance(v["ms"].as_u64()?),
            _ => return None,
        })
    }
    pub fn short(&self) -> String {
        match *self {
            Op::Issue { origin, h2 } => format!("Issue(o{origin},{})", if h2 { "h2" } else { "h1" }),
            Op::Poll(r) => format!("Poll(r{r})"),
            Op::Cancel(r) => format!("Cancel(r{r})"),
            Op::DialOk(d) => format!("DialOk(d{d})"),
            Op::DialErr(d) => format!("DialErr(d{d})"),
            Op::HsOk(d) => format!("HsOk(d{d})"),
            Op::HsErr(d) => format!("HsErr(d{d})"),
            Op::Respond(r) => format!("Respond(r{r})"),
            Op::RespondUpgrade(r) => format!("RespondUpgrade(r{r})"),
            Op::BodyDone(r) => format!("BodyDone(r{r})"),
            Op::Close(c) => format!("Close(c{c})"),
            Op::Bg => "Bg".into(),
            Op::Sleep(ms) => format!("Sleep({ms})"),
            Op::Advance(ms) => format!("Advance({ms})"),
        }
    }
}

pub struct CountWake {
    pub wakes: AtomicU32,
}
impl Wake for CountWake {
    fn wake(self: Arc<Self>) {
        self.wakes.fetch_add(1, Ordering::SeqCst);
    }
    fn wake_by_ref(self: &Arc<Self>) {
        self.wakes.fetch_add(1, Ordering::SeqCst);
    }
}

type BoxFut = Pin<Box<dyn Future<Output = Result<Response<Body>, hyperdriver::client::Error>>>>;

pub struct Lab {
    pub world: Shared,
    call: Box<dyn FnMut(Request<Body>) -> BoxFut>,
    snapshot: Box<dyn Fn() -> Vec<PoolEntry>>,
    futs: Vec<Option<BoxFut>>,
    /// futures of resolved requests that the caller has not dropped yet (`keep_completed_futures`)
    kept: Vec<BoxFut>,
    wakers: Vec<Arc<CountWake>>,
    pub trace_hash: u64,
    pub states_seen: std::collections::BTreeSet<u64>,
    pub applied: Vec<Op>,
    pub paused_clock: bool,
    pub last_pool_state: u64,
}

pub fn default_config() -> LabConfig {
    LabConfig {
        continue_after_preemption: true,
        idle_timeout_ms: None,
        max_idle_per_host: 32,
        with_pool: true,
        origins: vec![OriginCfg { uri: "http://a.test".into(), alpn_h2: false }],
        timeout_layer_ms: None,
        open_ignores_busy: false,
        keep_completed_futures: false,
        protocol_pending_polls: 0,
    }
}

impl LabConfig {
    pub fn to_json(&self) -> Value {
        json!({
            "continue_after_preemption": self.continue_after_preemption,
            "idle_timeout_ms": self.idle_timeout_ms,
            "max_idle_per_host": self.max_idle_per_host,
            "with_pool": self.with_pool,
            "origins": self.origins.iter().map(|o| json!({"uri": o.uri, "alpn_h2": o.alpn_h2})).collect::<Vec<_>>(),
            "timeout_layer_ms": self.timeout_layer_ms,
            "open_ignores_busy": self.open_ignores_busy,
            "keep_completed_futures": self.keep_completed_futures,
            "protocol_pending_polls": self.protocol_pending_polls,
        })
    }
    pub fn from_json(v: &Value) -> LabConfig {
        LabConfig {
            continue_after_preemption: v["continue_after_preemption"].as_bool().unwrap_or(true),
            idle_timeout_ms: v["idle_timeout_ms"].as_u64(),
            max_idle_per_host: v["max_idle_per_host"].as_u64().unwrap_or(32) as usize,
            with_pool: v["with_pool"].as_bool().unwrap_or(true),
            origins: v["origins"].as_array().map(|a| a.iter().map(|o| OriginCfg { uri: o["uri"].as_str().unwrap().to_string(), alpn_h2: o["alpn_h2"].as_bool().unwrap_or(false) }).collect()).unwrap_or_default(),
            timeout_layer_ms: v["timeout_layer_ms"].as_u64(),
            open_ignores_busy: v["open_ignores_busy"].as_bool().unwrap_or(false),
            keep_completed_futures: v["keep_completed_futures"].as_bool().unwrap_or(false),
            protocol_pending_polls: v["protocol_pending_polls"].as_u64().unwrap_or(0) as u8,
        }
    }
}

impl Lab {
    pub fn new(cfg: LabConfig, paused_clock: bool) -> Lab {
        let world: Shared = Arc::new(Mutex::new(World::new(cfg.clone())));
        let mut pc = PoolConfig::default();
        pc.continue_after_preemption = cfg.continue_after_preemption;
        pc.idle_timeout = cfg.idle_timeout_ms.map(Duration::from_millis);
        pc.max_idle_per_host = cfg.max_idle_per_host;
        let svc: ConnectionPoolService<LabTransport, LabProtocol, LabInner, Body> =
            ConnectionPoolService::new(LabTransport { world: world.clone() }, LabProtocol::new(world.clone()), LabInner { world: world.clone() }, pc);
        let svc = if cfg.with_pool { svc } else { svc.without_pool() };
        let snap_svc = svc.clone();
        let snapshot: Box<dyn Fn() -> Vec<PoolEntry>> = Box::new(move || snap_svc.verif_pool_snapshot());
        let call: Box<dyn FnMut(Request<Body>) -> BoxFut> = match cfg.timeout_layer_ms {
            Some(ms) => {
                let layer = hyperdriver::service::TimeoutLayer::new(|| hyperdriver::client::Error::RequestTimeout, Duration::from_millis(ms));
                let mut s = layer.layer(svc);
                Box::new(move |req| Box::pin(Service::call(&mut s, req)))
            }
            None => {
                let mut s = svc;
                Box::new(move |req| Box::pin(Service::call(&mut s, req)))
            }
        };
        if paused_clock {
            lock(&world).vtime_origin = Some(tokio::time::Instant::now());
        }
        Lab { world, call, snapshot, futs: vec![], kept: vec![], wakers: vec![], trace_hash: 0, states_seen: Default::default(), applied: vec![], paused_clock, last_pool_state: 0 }
    }

    /// ops that would do something in the current state
    pub fn enabled(&self, max_reqs: usize, h2_mix: (bool, bool)) -> Vec<Op> {
        let w = lock(&self.world);
        let mut v = Vec::new();
        if w.reqs.len() < max_reqs {
            for o in 0..w.cfg.origins.len() {
                if h2_mix.0 {
                    v.push(Op::Issue { origin: o, h2: false });
                }
                if h2_mix.1 {
                    v.push(Op::Issue { origin: o, h2: true });
                }
            }
        }
        for r in &w.reqs {
            match r.state {
                ReqState::Checkout | ReqState::Sent => {
                    v.push(Op::Poll(r.id));
                    v.push(Op::Cancel(r.id));
                    if r.state == ReqState::Sent && r.respond.is_none() {
                        v.push(Op::Respond(r.id));
                        if !w.conns[r.conn.unwrap()].h2 {
                            v.push(Op::RespondUpgrade(r.id));
                        }
                    }
                }
                ReqState::Done => {
                    if let Some(c) = r.conn {
                        if !w.conns[c].h2 && w.conns[c].busy && w.conns[c].busy_req == Some(r.id) && !r.upgrade {
                            v.push(Op::BodyDone(r.id));
                        }
                    }
                }
                _ => {}
            }
        }
        for d in &w.dials {
            if d.res == Res3::Pending && d.dropped_step.is_none() {
                v.push(Op::DialOk(d.id));
                v.push(Op::DialErr(d.id));
            }
            if let Some(h) = d.hs {
                if w.hss[h].res == Res3::Pending && w.hss[h].dropped_step.is_none() {
                    v.push(Op::HsOk(d.id));
                    v.push(Op::HsErr(d.id));
                }
            }
        }
        for c in &w.conns {
            if c.alive() && c.closed_step.is_none() {
                v.push(Op::Close(c.id));
            }
        }
        v.push(Op::Bg);
        if self.paused_clock {
            if let Some(d) = w.cfg.timeout_layer_ms {
                v.push(Op::Advance(1));
                if d > 2 {
                    v.push(Op::Advance(d / 2));
                    v.push(Op::Advance(d));
                }
            }
        }
        v
    }

    fn abstract_state(&self, snap: &[PoolEntry]) -> u64 {
        let w = lock(&self.world);
        let mut h = std::collections::hash_map::DefaultHasher::new();
        use std::hash::{Hash, Hasher};
        for r in &w.reqs {
            (r.state, r.h2, r.polls.min(2), r.dial.is_some(), r.respond.is_some(), r.responded, r.body_done, &r.origin, self.wakers[r.id].wakes.load(Ordering::SeqCst).min(1)).hash(&mut h);
        }
        for c in &w.conns {
            (c.alive(), c.open(), c.h2, c.busy, c.holders, c.ready_reported_step >= c.released_step, c.upgraded, &c.origin, c.live_handles.min(3)).hash(&mut h);
        }
        for d in &w.dials {
            (d.res, d.completed, d.dropped_step.is_some(), d.abandoned_step.is_some(), d.first_poll_step.is_some(), d.hs.map(|x| (w.hss[x].res, w.hss[x].completed, w.hss[x].dropped_step.is_some()))).hash(&mut h);
        }
        let mut s: Vec<_> = snap.iter().map(|e| (e.key.clone(), e.idle, e.waiting_live, e.connecting)).collect();
        s.sort();
        s.hash(&mut h);
        h.finish()
    }

    /// apply one op; returns false if it was not enabled (nothing happened)
    pub async fn step(&mut self, op: Op) -> bool {
        let applied = self.apply(op).await;
        if applied {
            if !matches!(op, Op::Sleep(_) | Op::Advance(_)) {
                lock(&self.world).last_activity = Some(Instant::now());
            }
            self.applied.push(op);
            let snap = (self.snapshot)();
            {
                let mut w = lock(&self.world);
                monitors::post_step(&mut w, &snap);
            }
            {
                let mut sn: Vec<_> = snap.iter().map(|e| (e.key.clone(), e.idle, e.waiting, e.waiting_live, e.connecting)).collect();
                sn.sort();
                self.last_pool_state = crate::report::hash_of(&sn);
            }
            let st = self.abstract_state(&snap);
            self.states_seen.insert(st);
            self.trace_hash = crate::report::hash_of(&(self.trace_hash, st, op));
        }
        applied
    }

    async fn apply(&mut self, op: Op) -> bool {
        {
            let mut w = lock(&self.world);
            w.step += 1;
            w.ev(|| format!("--- step: {}", op.short()));
        }
        match op {
            Op::Issue { origin, h2 } => {
                let (rid, req) = {
                    let mut w = lock(&self.world);
                    let Some(o) = w.cfg.origins.get(origin).cloned() else { return false };
                    let rid = w.reqs.len();
                    let uri: http::Uri = format!("{}/r{rid}?x={rid}", o.uri).parse().unwrap();
                    let step = w.step;
                    let timeout_ms = w.cfg.timeout_layer_ms;
                    let vnow = w.vnow_ms();
                    let prev_activity = w.last_activity;
                    w.reqs.push(ReqRec {
                        id: rid,
                        uri: uri.to_string(),
                        origin: origin_of(&uri),
                        h2,
                        probe: false,
                        issued_step: step,
                        issued_instant: Instant::now(),
                        prev_activity,
                        offered_since_poll: vec![],
                        state: ReqState::Checkout,
                        dial: None,
                        conn: None,
                        handoff_step: None,
                        handoffs: 0,
                        responded: false,
                        body_done: false,
                        upgrade: false,
                        cancelled_step: None,
                        finished_step: None,
                        error: None,
                        polls: 0,
                        resp_waker: None,
                        respond: None,
                        avail_at_issue: vec![],
                        must_use_idle: false,
                        waits_on: None,
                        is_owner: false,
                        timeout_ms,
                        issued_vtime_ms: vnow,
                        finished_vtime_ms: None,
                        respond_vtime_ms: None,
                    });
                    monitors::on_issue(&mut w, rid);
                    w.count(if h2 { "issued_h2" } else { "issued_h1" });
                    let req = Request::builder()
                        .uri(uri)
                        .version(if h2 { Version::HTTP_2 } else { Version::HTTP_11 })
                        .header(REQ_HEADER, rid)
                        .body(Body::empty())
                        .unwrap();
                    (rid, req)
                };
                let fut = (self.call)(req);
                self.futs.push(Some(fut));
                self.wakers.push(Arc::new(CountWake { wakes: AtomicU32::new(0) }));
                debug_assert_eq!(self.futs.len(), rid + 1);
                true
            }
            Op::Poll(r) => {
                let Some(Some(fut)) = self.futs.get_mut(r) else { return false };
                // a fresh waker for every poll: only wake-ups of the most recent waker count (a future has to
                // re-register with the waker of its latest poll), wake-ups of an outdated one are lost
                let wakes = self.wakers[r].wakes.swap(0, Ordering::SeqCst);
                let wk = Arc::new(CountWake { wakes: AtomicU32::new(0) });
                self.wakers[r] = wk.clone();
                let (before, polls_before) = {
                    let mut w = lock(&self.world);
                    let b = (w.reqs[r].state, w.reqs[r].polls);
                    w.reqs[r].polls += 1;
                    w.reqs[r].offered_since_poll.clear();
                    b
                };
                let waker = Waker::from(wk);
                let mut cx = Context::from_waker(&waker);
                let (inner_ready, stage) = {
                    let w = lock(&self.world);
                    (monitors::inner_would_resolve(&w, r), monitors::stage_of(&w, r))
                };
                let res = fut.as_mut().poll(&mut cx);
                let woken_during = self.wakers[r].wakes.load(Ordering::SeqCst) > 0;
                let mut w = lock(&self.world);
                let step = w.step;
                if w.cfg.timeout_layer_ms.is_some() {
                    let outcome = match &res {
                        Poll::Pending => None,
                        Poll::Ready(Ok(_)) => Some(Ok(())),
                        Poll::Ready(Err(e)) => Some(Err(format!("{e:?}"))),
                    };
                    monitors::on_timeout_poll(&mut w, r, outcome, inner_ready, stage, wakes);
                }
                match res {
                    Poll::Pending => {
                        let progressed = w.reqs[r].state != before;
                        monitors::on_poll_result(&mut w, r, progressed, wakes, polls_before, woken_during);
                    }
                    Poll::Ready(out) => {
                        let vnow = w.vnow_ms();
                        w.reqs[r].finished_step = Some(step);
                        w.reqs[r].finished_vtime_ms = Some(vnow);
                        match out {
                            Ok(resp) => {
                                let got = resp.headers().get(REQ_HEADER).and_then(|v| v.to_str().ok()).and_then(|s| s.parse::<usize>().ok());
                                if got != Some(r) {
                                    w.violate("C01", "response-for-another-request", format!("r{r} received the response produced for {got:?}"));
                                }
                                if !w.reqs[r].responded {
                                    w.violate("C01", "response-without-peer-response", format!("r{r} resolved Ok although the peer never responded"));
                                }
                                w.reqs[r].state = ReqState::Done;
                                w.count("requests_ok");
                                monitors::on_poll_result(&mut w, r, true, wakes, polls_before, woken_during);
                            }
                            Err(e) => {
                                let es = format!("{e:?}");
                                monitors::on_poll_result(&mut w, r, true, wakes, polls_before, woken_during);
                                monitors::on_request_error(&mut w, r, &es);
                                if es.contains("RequestTimeout") {
                                    // the caller drops the timed-out future: whatever it had in flight is abandoned
                                    if let Some(d) = w.reqs[r].dial {
                                        let outstanding = !w.dials[d].completed || w.dials[d].hs.map(|h| !w.hss[h].completed).unwrap_or(w.dials[d].res != Res3::Err);
                                        if outstanding && before == ReqState::Checkout && w.dials[d].abandoned_step.is_none() {
                                            w.dials[d].abandoned_step = Some(step);
                                        }
                                    }
                                    w.count("timeouts");
                                }
                                w.reqs[r].state = ReqState::Failed;
                                w.reqs[r].error = Some(es);
                                w.count("requests_err");
                                let o = w.reqs[r].origin.clone();
                                if w.h2_owner.get(&o) == Some(&r) {
                                    w.h2_owner.remove(&o);
                                }
                            }
                        }
                        let keep = w.cfg.keep_completed_futures;
                        drop(w);
                        match self.futs[r].take() {
                            Some(f) if keep => self.kept.push(f),
                            _ => {}
                        }
                    }
                }
                true
            }
            Op::Cancel(r) => {
                if !matches!(self.futs.get(r), Some(Some(_))) {
                    return false;
                }
                let ctx = {
                    let mut w = lock(&self.world);
                    let k = match w.reqs[r].state {
                        ReqState::Checkout if w.reqs[r].polls == 0 => "cancel_before_first_poll",
                        ReqState::Checkout => "cancel_during_checkout",
                        _ => "cancel_after_handoff",
                    };
                    w.count(k);
                    monitors::before_cancel(&mut w, r)
                };
                self.futs[r] = None; // drops the future
                let mut w = lock(&self.world);
                monitors::after_cancel(&mut w, r, ctx);
                let o = w.reqs[r].origin.clone();
                if w.h2_owner.get(&o) == Some(&r) {
                    w.h2_owner.remove(&o);
                }
                true
            }
            Op::DialOk(d) | Op::DialErr(d) => {
                let waker = {
                    let mut w = lock(&self.world);
                    let Some(dr) = w.dials.get_mut(d) else { return false };
                    if dr.res != Res3::Pending || dr.dropped_step.is_some() {
                        return false;
                    }
                    dr.res = if matches!(op, Op::DialOk(_)) { Res3::Ok } else { Res3::Err };
                    dr.waker.take()
                };
                if let Some(wk) = waker {
                    wk.wake();
                }
                true
            }
            Op::HsOk(d) | Op::HsErr(d) => {
                let waker = {
                    let mut w = lock(&self.world);
                    let Some(h) = w.dials.get(d).and_then(|x| x.hs) else { return false };
                    let hr = &mut w.hss[h];
                    if hr.res != Res3::Pending || hr.dropped_step.is_some() {
                        return false;
                    }
                    hr.res = if matches!(op, Op::HsOk(_)) { Res3::Ok } else { Res3::Err };
                    hr.waker.take()
                };
                if let Some(wk) = waker {
                    wk.wake();
                }
                true
            }
            Op::Respond(r) | Op::RespondUpgrade(r) => {
                let waker = {
                    let mut w = lock(&self.world);
                    let vnow = w.vnow_ms();
                    let Some(rr) = w.reqs.get_mut(r) else { return false };
                    if rr.state != ReqState::Sent || rr.respond.is_some() {
                        return false;
                    }
                    let up = matches!(op, Op::RespondUpgrade(_));
                    rr.respond = Some(up);
                    rr.upgrade = up;
                    rr.respond_vtime_ms = Some(vnow);
                    rr.resp_waker.take()
                };
                if let Some(wk) = waker {
                    wk.wake();
                }
                true
            }
            Op::BodyDone(r) => {
                let waker = {
                    let mut w = lock(&self.world);
                    let Some(rr) = w.reqs.get(r) else { return false };
                    let Some(c) = rr.conn else { return false };
                    if !rr.responded || rr.body_done || rr.upgrade {
                        return false;
                    }
                    if w.conns[c].h2 || !w.conns[c].busy || w.conns[c].busy_req != Some(r) {
                        return false;
                    }
                    w.reqs[r].body_done = true;
                    w.conns[c].busy = false;
                    w.conns[c].busy_req = None;
                    w.conns[c].ready_waker.take()
                };
                if let Some(wk) = waker {
                    wk.wake();
                }
                true
            }
            Op::Close(c) => {
                let waker = {
                    let mut w = lock(&self.world);
                    let step = w.step;
                    let Some(cr) = w.conns.get_mut(c) else { return false };
                    if !cr.alive() || cr.closed_step.is_some() {
                        return false;
                    }
                    cr.closed_step = Some(step);
                    let kind = if cr.holders > 0 {
                        "close_while_held"
                    } else if cr.busy {
                        "close_while_body_outstanding"
                    } else if cr.ready_reported_step >= cr.released_step && cr.handoffs > 0 {
                        "close_while_idle_or_queued"
                    } else {
                        "close_other"
                    };
                    let wk = cr.ready_waker.take();
                    w.count(kind);
                    wk
                };
                if let Some(wk) = waker {
                    wk.wake();
                }
                true
            }
            Op::Bg => {
                tokio::task::yield_now().await;
                true
            }
            Op::Sleep(ms) => {
                std::thread::sleep(Duration::from_millis(ms));
                true
            }
            Op::Advance(ms) => {
                if !self.paused_clock {
                    return false;
                }
                tokio::time::advance(Duration::from_millis(ms)).await;
                true
            }
        }
    }

    pub async fn bg_drain(&mut self) {
        for _ in 0..4 {
            self.step(Op::Bg).await;
        }
    }

    fn unfinished(&self) -> Vec<usize> {
        lock(&self.world).reqs.iter().filter(|r| matches!(r.state, ReqState::Checkout | ReqState::Sent)).map(|r| r.id).collect()
    }

    /// Drain phase: terminate every outstanding attempt (`fail_dials` / `fail_hs`: dial ids the fault script
    /// fails instead), run background work to quiescence, re-poll, respond, finish bodies, to a fixpoint.
    /// Afterwards every non-cancelled request must be resolved (C03).
    pub async fn drain(&mut self, fail_dials: &[usize], fail_hs: &[usize]) {
        for _round in 0..40 {
            let mut changed = false;
            let (dials, hss): (Vec<usize>, Vec<usize>) = {
                let w = lock(&self.world);
                (
                    w.dials.iter().filter(|d| d.res == Res3::Pending && d.dropped_step.is_none()).map(|d| d.id).collect(),
                    w.dials.iter().filter(|d| d.hs.map(|h| w.hss[h].res == Res3::Pending && w.hss[h].dropped_step.is_none()).unwrap_or(false)).map(|d| d.id).collect(),
                )
            };
            for d in dials {
                changed |= self.step(if fail_dials.contains(&d) { Op::DialErr(d) } else { Op::DialOk(d) }).await;
            }
            for d in hss {
                changed |= self.step(if fail_hs.contains(&d) { Op::HsErr(d) } else { Op::HsOk(d) }).await;
            }
            self.bg_drain().await;
            for r in self.unfinished() {
                let (polls, state, responded) = {
                    let w = lock(&self.world);
                    (w.reqs[r].polls, w.reqs[r].state, w.reqs[r].respond.is_some())
                };
                if state == ReqState::Sent && !responded {
                    changed |= self.step(Op::Respond(r)).await;
                }
                let woken = self.wakers[r].wakes.load(Ordering::SeqCst) > 0;
                if polls == 0 || woken {
                    changed |= self.step(Op::Poll(r)).await;
                }
            }
            let bodies: Vec<usize> = {
                let w = lock(&self.world);
                w.reqs.iter().filter(|r| r.state == ReqState::Done && !r.body_done && !r.upgrade && r.conn.map(|c| !w.conns[c].h2 && w.conns[c].busy && w.conns[c].busy_req == Some(r.id)).unwrap_or(false)).map(|r| r.id).collect()
            };
            for r in bodies {
                changed |= self.step(Op::BodyDone(r)).await;
            }
            self.bg_drain().await;
            let outstanding = {
                let w = lock(&self.world);
                w.dials.iter().any(|d| (d.res == Res3::Pending && d.dropped_step.is_none()) || d.hs.map(|h| w.hss[h].res == Res3::Pending && w.hss[h].dropped_step.is_none()).unwrap_or(false))
            };
            let woken = self.unfinished().iter().any(|r| self.wakers[*r].wakes.load(Ordering::SeqCst) > 0);
            if !changed && !outstanding && !woken {
                break;
            }
        }
        // Final judgement: everything has terminated; poll whatever is still unresolved once more.
        for r in self.unfinished() {
            let wakes = self.wakers[r].wakes.load(Ordering::SeqCst);
            let before = lock(&self.world).reqs[r].state;
            self.step(Op::Poll(r)).await;
            let mut w = lock(&self.world);
            let after = w.reqs[r].state;
            if matches!(after, ReqState::Checkout | ReqState::Sent) {
                let class = if after == ReqState::Sent {
                    "after-handoff".to_string()
                } else if let Some(o) = w.reqs[r].waits_on {
                    format!("pure-waiter:owner-{:?}", w.reqs[o].state).to_lowercase()
                } else if w.reqs[r].dial.is_none() {
                    "no-own-attempt".to_string()
                } else {
                    "own-attempt-terminated".to_string()
                };
                let cont = w.cfg.continue_after_preemption;
                w.violate(
                    "C03",
                    format!("stranded:{class}:continue_after_preemption={cont}"),
                    format!("r{r} is still {after:?} after every connection attempt terminated and background work drained ({wakes} wake-ups since its last poll)"),
                );
                w.count("stranded");
                // the same observation under C01: a request that was not cancelled never completes
                w.violate("C01", format!("request-never-completes:{class}"), format!("r{r} was not cancelled, every connection attempt terminated, and it is still {after:?} at quiescence"));
            } else if before != after && wakes == 0 {
                // progress without wake-up is reported by on_poll_result
            }
        }
    }

    /// A fresh request per origin must complete (C03: cancellations never prevent later requests).
    pub async fn probe(&mut self) {
        let n = lock(&self.world).cfg.origins.len();
        for o in 0..n {
            let h2 = o % 2 == 1;
            let rid = lock(&self.world).reqs.len();
            self.step(Op::Issue { origin: o, h2 }).await;
            lock(&self.world).reqs[rid].probe = true;
            for _ in 0..6 {
                self.step(Op::Poll(rid)).await;
                let (state, dial) = {
                    let w = lock(&self.world);
                    (w.reqs[rid].state, w.reqs[rid].dial)
                };
                match state {
                    ReqState::Checkout => {
                        if let Some(d) = dial {
                            self.step(Op::DialOk(d)).await;
                            self.step(Op::Poll(rid)).await;
                            self.step(Op::HsOk(d)).await;
                        } else {
                            // it may be waiting on somebody else's attempt: terminate them all
                            self.drain(&[], &[]).await;
                        }
                    }
                    ReqState::Sent => {
                        self.step(Op::Respond(rid)).await;
                    }
                    _ => break,
                }
                self.bg_drain().await;
            }
            let mut w = lock(&self.world);
            let st = w.reqs[rid].state;
            let zero_timeout = w.cfg.timeout_layer_ms == Some(0) && w.reqs[rid].error.as_deref().map(|e| e.contains("RequestTimeout")).unwrap_or(false);
            if zero_timeout {
                // with a zero timeout every request that needs a dial legitimately times out at its first poll
                w.count("probes_timed_out_with_zero_timeout");
            } else if st != ReqState::Done {
                let err = w.reqs[rid].error.clone();
                w.violate("C03", format!("probe-not-served:{st:?}"), format!("fresh probe r{rid} to origin {o} ended {st:?} ({err:?}) after the drain"));
                w.violate("C01", format!("request-never-completes:probe:{st:?}"), format!("fresh request r{rid} to origin {o}, not cancelled, its connection attempt allowed to succeed and the peer answering, ended {st:?} ({err:?})"));
            } else {
                w.count("probes_served");
            }
            drop(w);
            self.step(Op::BodyDone(rid)).await;
            self.bg_drain().await;
        }
    }

    /// C14 (b)/(c) accounting after the drain and before the probe.
    pub fn account_abandoned(&mut self) {
        let mut w = lock(&self.world);
        if !w.cfg.with_pool {
            return;
        }
        let cont = w.cfg.continue_after_preemption;
        let max = w.cfg.max_idle_per_host;
        let mut out = vec![];
        for d in &w.dials {
            if d.abandoned_step.is_none() {
                continue;
            }
            let conn = d.hs.and_then(|h| w.hss[h].conn);
            if cont {
                if d.res == Res3::Ok && d.hs.is_none() {
                    // the transport connected, the attempt was abandoned before the protocol service was ready to start the
                    // handshake (its poll_ready was pending), and the handshake was never started: the attempt was dropped
                    out.push(("abandoned-attempt-dropped-between-connect-and-handshake".to_string(), format!("d{} connected, was abandoned at step {} while the protocol service was not ready yet, and no handshake was ever started for it (continue_after_preemption=true)", d.id, d.abandoned_step.unwrap())));
                    continue;
                }
                let ok = d.res == Res3::Ok && d.hs.map(|h| w.hss[h].res == Res3::Ok).unwrap_or(false);
                if !ok {
                    continue;
                }
                match conn {
                    None => out.push(("abandoned-attempt-never-completed".to_string(), format!("d{} was abandoned, the script let it succeed, but no connection came out of it", d.id))),
                    Some(c) => {
                        let cr = &w.conns[c];
                        let retained = w.conns.iter().filter(|x| x.origin == cr.origin && x.alive() && x.holders == 0 && x.is_open()).count();
                        let ever = w.conns.iter().filter(|x| x.origin == cr.origin).count();
                        let popped_by_cancelled = w.reqs.iter().any(|r| r.state == ReqState::Cancelled && r.avail_at_issue.contains(&c));
                        if !cr.alive() && cr.open() && retained < max && ever <= max && !cr.destroyed_by_cancel && !popped_by_cancelled {
                            out.push(("abandoned-attempt-connection-not-kept".to_string(), format!("c{c} from abandoned d{} completed in the background but was dropped instead of being kept in the pool", d.id)));
                        } else if cr.alive() {
                            w_count(&mut out, "c14_background_connection_kept");
                        }
                    }
                }
            } else if let Some(c) = conn {
                if w.conns[c].alive() && w.conns[c].created_step > d.abandoned_step.unwrap() {
                    out.push(("abandoned-attempt-left-a-connection".to_string(), format!("c{c} was established from d{} after it was abandoned (continue_after_preemption=false)", d.id)));
                }
            }
        }
        for (sig, msg) in out {
            if sig.starts_with("c14_") {
                w.count(&sig);
            } else {
                w.violate("C14", sig, msg);
            }
        }
    }
}

fn w_count(out: &mut Vec<(String, String)>, k: &str) {
    out.push((k.to_string(), String::new()));
}
