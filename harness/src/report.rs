//! Result records written by every engine and read by `/verif/check`.
//!
//! One `PropReport` per property id. Engines add evaluations, distinct case
//! hashes, samples, named counters and violations; the driver merges the
//! reports of all engines serving a property into the evidence file.

use std::collections::{BTreeMap, BTreeSet};
use std::hash::{Hash, Hasher};

use serde_json::{json, Value};

#[derive(Debug, Clone)]
pub struct Violation {
    /// Stable identification of *what* fails (rule + call site / input class / schedule shape).
    pub signature: String,
    /// Human readable description of this witness.
    pub message: String,
    /// Everything needed to re-run the witness (engine specific).
    pub replay: Value,
}

#[derive(Debug, Default, Clone)]
pub struct PropReport {
    pub evaluations: u64,
    pub distinct: BTreeSet<u64>,
    pub samples: Vec<Value>,
    pub counters: BTreeMap<String, u64>,
    pub violations: Vec<Violation>,
    /// number of violations seen per signature (violations keeps only the first few witnesses)
    pub violation_counts: BTreeMap<String, u64>,
    pub inconclusive: Vec<String>,
    pub rule: String,
    pub assumptions: BTreeSet<String>,
    pub exhaustive: Option<bool>,
    pub max_samples: usize,
}

pub fn hash_of<T: Hash>(t: &T) -> u64 {
    let mut h = std::collections::hash_map::DefaultHasher::new();
    t.hash(&mut h);
    h.finish()
}

impl PropReport {
    pub fn new(rule: &str) -> Self {
        Self {
            rule: rule.to_string(),
            max_samples: 6,
            ..Default::default()
        }
    }

    pub fn count(&mut self, name: &str, n: u64) {
        *self.counters.entry(name.to_string()).or_default() += n;
    }

    pub fn max(&mut self, name: &str, n: u64) {
        let e = self.counters.entry(name.to_string()).or_default();
        if n > *e {
            *e = n;
        }
    }

    pub fn eval(&mut self, distinct_key: Option<u64>) {
        self.evaluations += 1;
        if let Some(k) = distinct_key {
            self.distinct.insert(k);
        }
    }

    pub fn sample(&mut self, v: Value) {
        if self.samples.len() < self.max_samples {
            self.samples.push(v);
        }
    }

    pub fn assume(&mut self, s: &str) {
        self.assumptions.insert(s.to_string());
    }

    pub fn violation(&mut self, signature: impl Into<String>, message: impl Into<String>, replay: Value) {
        let signature = signature.into();
        let n = self.violation_counts.entry(signature.clone()).or_default();
        *n += 1;
        if *n <= 3 {
            self.violations.push(Violation {
                signature,
                message: message.into(),
                replay,
            });
        }
    }

    pub fn merge(&mut self, other: PropReport) {
        self.evaluations += other.evaluations;
        self.distinct.extend(other.distinct);
        for s in other.samples {
            self.sample(s);
        }
        for (k, v) in other.counters {
            if k.starts_with("max_") {
                self.max(&k, v);
            } else {
                self.count(&k, v);
            }
        }
        for v in other.violations {
            let have = self
                .violations
                .iter()
                .filter(|x| x.signature == v.signature)
                .count();
            if have < 3 {
                self.violations.push(v);
            }
        }
        for (k, v) in other.violation_counts {
            *self.violation_counts.entry(k).or_default() += v;
        }
        self.inconclusive.extend(other.inconclusive);
        self.assumptions.extend(other.assumptions);
        if self.rule.is_empty() {
            self.rule = other.rule;
        }
        self.exhaustive = match (self.exhaustive, other.exhaustive) {
            (Some(a), Some(b)) => Some(a && b),
            (a, None) => a,
            (None, b) => b,
        };
    }

    pub fn to_json(&self) -> Value {
        json!({
            "evaluations": self.evaluations,
            "distinct_nontrivial": self.distinct.len(),
            "rule": self.rule,
            "samples": self.samples,
            "counters": self.counters,
            "violations": self.violations.iter().map(|v| json!({
                "signature": v.signature, "message": v.message, "replay": v.replay,
            })).collect::<Vec<_>>(),
            "violation_counts": self.violation_counts,
            "inconclusive": self.inconclusive,
            "assumptions": self.assumptions,
            "exhaustive": self.exhaustive,
        })
    }
}

/// Engine output: reports per property.
#[derive(Debug, Default)]
pub struct Report {
    pub engine: String,
    pub props: BTreeMap<String, PropReport>,
}

impl Report {
    pub fn new(engine: &str) -> Self {
        Self {
            engine: engine.to_string(),
            props: BTreeMap::new(),
        }
    }

    pub fn prop(&mut self, id: &str, rule: &str) -> &mut PropReport {
        self.props
            .entry(id.to_string())
            .or_insert_with(|| PropReport::new(rule))
    }

    pub fn merge(&mut self, other: Report) {
        for (k, v) in other.props {
            match self.props.get_mut(&k) {
                Some(p) => p.merge(v),
                None => {
                    self.props.insert(k, v);
                }
            }
        }
    }

    pub fn to_json(&self) -> Value {
        let mut props = serde_json::Map::new();
        for (k, v) in &self.props {
            props.insert(k.clone(), v.to_json());
        }
        json!({"engine": self.engine, "props": props})
    }

    pub fn write(&self, path: &str) {
        std::fs::write(path, serde_json::to_string_pretty(&self.to_json()).unwrap())
            .expect("write report");
    }
}

/// Common engine arguments.
#[derive(Debug, Clone)]
pub struct Args {
    pub tier_thorough: bool,
    pub seed: u64,
    pub out: Option<String>,
    pub props: Vec<String>,
    pub replay: Option<String>,
    pub threads: usize,
    pub extra: BTreeMap<String, String>,
}

impl Args {
    pub fn parse(args: &[String]) -> Args {
        let mut a = Args {
            tier_thorough: std::env::var("VERIF_TIER").map(|t| t == "thorough").unwrap_or(false),
            seed: std::env::var("VERIF_SEED").ok().and_then(|s| s.parse().ok()).unwrap_or(1),
            out: None,
            props: vec![],
            replay: None,
            threads: std::thread::available_parallelism().map(|n| n.get()).unwrap_or(4).min(16),
            extra: BTreeMap::new(),
        };
        let mut i = 0;
        while i < args.len() {
            let k = args[i].as_str();
            let v = args.get(i + 1).cloned();
            match k {
                "--tier" => {
                    a.tier_thorough = v.as_deref() == Some("thorough");
                    i += 1;
                }
                "--seed" => {
                    a.seed = v.and_then(|s| s.parse().ok()).unwrap_or(1);
                    i += 1;
                }
                "--out" => {
                    a.out = v;
                    i += 1;
                }
                "--prop" => {
                    if let Some(v) = v {
                        a.props.extend(v.split(',').map(|s| s.to_string()));
                    }
                    i += 1;
                }
                "--replay" => {
                    a.replay = v;
                    i += 1;
                }
                "--threads" => {
                    a.threads = v.and_then(|s| s.parse().ok()).unwrap_or(a.threads);
                    i += 1;
                }
                _ if k.starts_with("--") => {
                    a.extra.insert(k[2..].to_string(), v.unwrap_or_default());
                    i += 1;
                }
                _ => {}
            }
            i += 1;
        }
        a
    }

    pub fn wants(&self, prop: &str) -> bool {
        self.props.is_empty() || self.props.iter().any(|p| p == prop)
    }

    pub fn extra_u64(&self, k: &str, default: u64) -> u64 {
        self.extra.get(k).and_then(|s| s.parse().ok()).unwrap_or(default)
    }
}

/// Run `n` jobs on `threads` OS threads; each job gets its index; results merged.
pub fn parallel<F>(threads: usize, n: u64, engine: &str, f: F) -> Report
where
    F: Fn(u64, &mut Report) + Sync,
{
    let next = std::sync::atomic::AtomicU64::new(0);
    let total = std::sync::Mutex::new(Report::new(engine));
    std::thread::scope(|s| {
        for _ in 0..threads.max(1) {
            s.spawn(|| {
                let mut local = Report::new(engine);
                loop {
                    let i = next.fetch_add(1, std::sync::atomic::Ordering::Relaxed);
                    if i >= n {
                        break;
                    }
                    f(i, &mut local);
                }
                total.lock().unwrap().merge(local);
            });
        }
    });
    total.into_inner().unwrap()
}
