"""Which engines decide which property (read by ./check and tools/gen_manifest.py)."""

PROPS = {
    "C16": {
        "level": "exploration",
        "engines": [{"engine": "addrsort"}],
        "min_counters": {"any": {"addrsort.public_trials": 20, "addrsort.set_port_cases": 100}},
        "technique": "runtime differential monitor: real sort_preferred/set_port (hook) and real TcpTransport connects on loopback vs an independent order specification, exhaustive over short lists",
        "level_text": "Every address list up to length 6 (quick) / 8 (thorough) over 3 IPv4 + 3 IPv6 addresses with duplicates, under all three preference settings, is pushed through the real sorting routine and compared with an independent specification (permutation, first preferred, first other, rest in order); set_port is run on every port (thorough). The attempt order is observed through the public TcpTransport with a scripted resolver and loopback listeners. Exhaustive over the stated finite domain, sampled for the socket part.",
        "level_note": "Trusted: the 15-line order specification in harness/src/addrsort.rs, std::net, the loopback stack. IPv6 on the socket path is limited to ::1 and v4-mapped addresses.",
        "design_ref": "DESIGN.md 3/C16",
    },
}

ENGINES = [
    {"name": "addrsort", "path": "harness/src/addrsort.rs", "serves_properties": ["C16"],
     "kind_free_text": "exhaustive differential monitor of the address sorter (hook) + loopback connect-order observation"},
]
