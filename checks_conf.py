"""Which engines decide which property (read by ./check and tools/gen_manifest.py)."""

PROPS = {
    "C16": {
        "level": "exploration",
        "engines": [{"engine": "addrsort"}],
        "min_counters": {"any": {"addrsort.public_trials": 20, "addrsort.set_port_cases": 100}},
        "technique": "runtime differential monitor: real sort_preferred/set_port (hook) and real TcpTransport connects on loopback vs an independent order specification, exhaustive over short lists",
        "level_text": "Every address list up to length 6 (quick) / 8 (thorough) over 3 IPv4 + 3 IPv6 addresses with duplicates, under all three preference settings, is pushed through the real sorting routine and compared with an independent specification (permutation, first preferred, first other, rest in order); set_port is run on every port (thorough). The attempt order is observed through the public TcpTransport with a scripted resolver and loopback listeners. Exhaustive over the stated finite domain, sampled for the socket part.",
        "level_note": "Trusted: the 15-line order specification in harness/src/addrsort.rs, std::net, the loopback stack. IPv6 on the socket path is limited to ::1 and v4-mapped addresses.",
        "design_ref": "DESIGN.md 3/C16",
    },
    "C10": {
        "level": "exploration",
        "engines": [{"engine": "eyeballs"}],
        "min_counters": {"any": {"eyeballs.tie_free_cases": 10000, "eyeballs.public_trials": 10}},
        "technique": "runtime monitoring in virtual time: real EyeballSet (hook re-export) on scripted attempts, result/finish time judged by order-independent oracles over the recorded start times plus an independent event-driven reference; loopback error-mapping trials through TcpTransport",
        "level_text": "Full product of attempt outcomes x latencies x delay x timeout x concurrency for up to 3 (quick) / 4 (thorough) candidates plus random larger sets, every case executed by the real EyeballSet under the paused tokio clock. Winner, first failure, timeout-vs-deadline, no-progress and hang are judged against the recorded start/completion times (sound also in tie cases) and, in tie-free cases with reference-equal pacing, against the reference result and finish time.",
        "level_note": "Trusted: tokio's paused clock (1 ms resolution), the reference simulator in harness/src/eyeballs.rs, FuturesUnordered. A TCP connect that never completes cannot be produced on loopback, so the 'never' outcome is exercised only on scripted attempts.",
        "design_ref": "DESIGN.md 3/C10",
    },
    "C11": {
        "level": "exploration",
        "engines": [{"engine": "eyeballs"}],
        "min_counters": {"any": {"eyeballs.tie_free_cases": 10000, "eyeballs.attempt_starts_observed": 50000}},
        "technique": "runtime monitoring in virtual time: first-poll time of every scripted attempt recorded from the real EyeballSet and compared with reference start times (order, at-most-once, initial batch, never-early / never-late pacing, deadline)",
        "level_text": "Same executions as C10; the oracle is over the recorded first-poll times: attempts start in order and at most once, the initial batch equals the configured concurrency, each later start coincides with the stagger tick or the releasing failure (exact in tie-free cases, one-sided bound otherwise), and the operation finishes by the deadline.",
        "level_note": "Trusted: tokio's paused clock, the reference simulator. concurrency=Some(0) is read as 'first candidate starts at once because nothing is running'. The timeout/n stagger derivation in TcpConnecting is not observable on loopback (connects complete or fail instantly).",
        "design_ref": "DESIGN.md 3/C11",
    },
    "C13": {
        "level": "exploration",
        "engines": [{"engine": "layers"}],
        "min_counters": {"any": {"layers.cases_h1_conn": 100000, "layers.cases_h2_conn": 100000, "layers.rejected_connect_on_h2": 1000}},
        "technique": "runtime differential monitor: the public SetHostHeader/Http2Checks/Http1Checks layers over a stub connection on an exhaustive request grammar vs an independent request-shape specification",
        "level_text": "Every combination of the request grammar (8 schemes incl. mixed case, 7 host forms, 6 ports, 7 paths, 4 queries, 7 methods, 5 versions, 6 header presets, both connection protocols: 3.9 million cases, exhaustive in both tiers) is pushed through the real layers and the request that reaches the inner service is compared with the specification of the property.",
        "level_note": "Trusted: the specification function in harness/src/reqsweep.rs, the http crate's Uri Display (what hyper writes on the request line).",
        "design_ref": "DESIGN.md 3/C13",
    },
    "C20": {
        "level": "exploration",
        "engines": [{"engine": "sni"}],
        "min_counters": {"any": {"sni.judged_must_forward": 100, "sni.judged_must_reject": 1000}},
        "technique": "runtime differential monitor: the public ValidateSNI layer around a recording inner service on an exhaustive (version, Host, authority, server name) grammar vs an independent predicate",
        "level_text": "All 5292 combinations of HTTP version, Host header, URI authority and TLS server name (case variants, ports, IPv4/IPv6 literals, prefix/suffix names, absent SNI, no TLS) go through the real layer; forwarded / rejected and the validated flag are compared with an independent case-insensitive, port-ignoring predicate.",
        "level_note": "Trusted: the predicate in harness/src/reqsweep.rs. Requests that name no host are not judged.",
        "design_ref": "DESIGN.md 3/C20",
    },
}

ENGINES = [
    {"name": "addrsort", "path": "harness/src/addrsort.rs", "serves_properties": ["C16"],
     "kind_free_text": "exhaustive differential monitor of the address sorter (hook) + loopback connect-order observation"},
    {"name": "eyeballs", "path": "harness/src/eyeballs.rs", "serves_properties": ["C10", "C11"],
     "kind_free_text": "scripted attempts on the real EyeballSet under the paused tokio clock, order-independent oracles + reference simulator"},
    {"name": "layers", "path": "harness/src/reqsweep.rs", "serves_properties": ["C13"],
     "kind_free_text": "request grammar through the public client layers over a stub connection vs a specification"},
    {"name": "sni", "path": "harness/src/reqsweep.rs", "serves_properties": ["C20"],
     "kind_free_text": "ValidateSNI layer sweep vs an independent predicate"},
]
