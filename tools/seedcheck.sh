#!/bin/sh
# usage: tools/seedcheck.sh <patch> <prop> [more props...]   -- apply a seeded patch to /repo, run the quick checks, undo
PATCH=$1; shift
cd /repo || exit 2
git diff --quiet || { echo "/repo is dirty"; exit 2; }
git apply "$PATCH" || { echo "patch does not apply"; exit 2; }
for P in "$@"; do
  echo "== $P with $(basename $(dirname $PATCH))/$(basename $PATCH)"
  (cd /verif && ./check $P --tier quick 2>&1 | grep -E "^(VIOLATION|KNOWN|OK|INCONCLUSIVE|# )" | cut -c1-330 | head -8)
done
git -C /repo checkout -- .
git -C /repo status --short | head -3
