#!/bin/bash
# usage: tools/benigncheck.sh <patch> <prop> [props...]  -- apply a property-preserving change to /repo, run quick checks, undo.
# One line per property: QUIET (check stays silent = wanted) / ALARM (first violation signature) / INCONCLUSIVE
PATCH=$1; shift
cd /verif
git -C /repo diff --quiet || { echo "/repo is dirty"; exit 2; }
git -C /repo apply "$PATCH" 2>/dev/null || { echo "$(basename $(dirname $PATCH))/$(basename $PATCH) PATCH-DOES-NOT-APPLY"; exit 2; }
for P in "$@"; do
  out=$(timeout 2400 ./check $P --tier quick 2>&1)
  tag="$(basename $(dirname $PATCH))/$(basename $PATCH) -> $P"
  if echo "$out" | grep -q "^VIOLATION"; then echo "$tag ALARM $(echo "$out" | grep '^# ' | cut -c1-220 | head -3 | tr '\n' ' ')";
  elif echo "$out" | grep -q "^INCONCLUSIVE"; then echo "$tag INCONCLUSIVE $(echo "$out" | grep -m1 '^INCONCLUSIVE' | cut -c1-200)";
  else echo "$tag QUIET"; fi
done
git -C /repo checkout -- .
git -C /verif checkout replays evidence 2>/dev/null; git -C /verif clean -fq replays
