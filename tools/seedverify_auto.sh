#!/bin/bash
# usage: [WTROOT=..] [SEEDROOT=..] tools/seedverify_auto.sh <ID> <n>  -- derive features / test-util from the demo header, then seedverify
ID=$1; N=$2
S=${SEEDROOT:-/tmp/seed}/$ID
FEAT=$(grep -m1 -o 'required-features *= *\[[^]]*\]' $S/demo$N.rs | sed 's/.*\[//; s/\]//; s/"//g; s/ //g')
TU=""
grep -q 'test-util\|start_paused\|tokio::time::pause\|time::advance' $S/demo$N.rs && TU=1
FEATURES="$FEAT" TESTUTIL="$TU" $(dirname $0)/seedverify.sh $ID $N
