#!/usr/bin/env python3
"""Regenerate /verif/MANIFEST.json from checks_conf.py (+ not_applicable.json)."""
import json, os, subprocess, sys
VERIF = os.path.dirname(os.path.dirname(os.path.abspath(__file__)))
sys.path.insert(0, VERIF)
from checks_conf import PROPS, ENGINES

hooks_commits = []
try:
    out = subprocess.run(["git", "-C", "/repo", "log", "--format=%H %s"], capture_output=True, text=True).stdout
    hooks_commits = [l.split()[0] for l in out.splitlines() if "verif-hooks" in l]
except Exception:
    pass

all_ids = [json.loads(l)["id"] for l in open(os.path.join(VERIF, "properties.jsonl")) if l.strip()]
na_path = os.path.join(VERIF, "not_applicable.json")
na = json.load(open(na_path)) if os.path.exists(na_path) else {}

checks = []
for pid in all_ids:
    if pid not in PROPS:
        continue
    c = PROPS[pid]
    checks.append({
        "property_id": pid,
        "quick_cmd": f"./check {pid} --tier quick",
        "thorough_cmd": f"./check {pid} --tier thorough",
        "evidence_file": f"/verif/evidence/{pid}.json",
        "replay_cmd_template": f"./check {pid} --replay {{path}}",
        "engine": "+".join(sorted({e.get("engine", e.get("script")) for e in c["engines"]})),
        "level_claimed": {"category": c["level"], "text": c["level_text"], "design_ref": c.get("design_ref", "DESIGN.md")},
        "level_note": c["level_note"],
        "technique": c["technique"],
    })

not_applicable = []
for pid in all_ids:
    if pid not in PROPS:
        not_applicable.append({"property_id": pid, "reason": na.get(pid, "check not built yet (work in progress); no claim is made for this property")})

manifest = {
    "version": 1,
    "setup_cmd": "cd /verif/harness && CARGO_NET_OFFLINE=true cargo build --offline --release && CARGO_NET_OFFLINE=true cargo build --offline && (CARGO_NET_OFFLINE=true MIRIFLAGS=-Zmiri-disable-isolation cargo +nightly miri run --bin hdv -- warmup >/dev/null 2>&1 || true)",
    "hooks": {
        "guard": "cargo feature `verif-hooks` of the hyperdriver crate (off by default)",
        "enable": "the harness crate /verif/harness depends on hyperdriver by path (/repo) with features [client, server, stream, tls, tls-ring, sni, verif-hooks]; every check starts with `cargo build` of the harness, which recompiles /repo's working tree",
        "baseline_off_cmd": "cd /repo && cargo nextest run --workspace --no-fail-fast --offline",
        "source_commits": hooks_commits,
        "add_only": True,
    },
    "engines": ENGINES,
    "checks": checks,
    "notes": "Runtime monitoring and sanitizers only. Exit codes of ./check: 0 held on what was observed, 1 VIOLATION, 2 INCONCLUSIVE (never folded into the others). Known findings: /verif/known_findings.json.",
    "not_applicable": not_applicable,
}
json.dump(manifest, open(os.path.join(VERIF, "MANIFEST.json"), "w"), indent=1)
print("checks:", [c["property_id"] for c in checks], "not_applicable:", [n["property_id"] for n in not_applicable])
