#!/usr/bin/env python3
"""One-off helper used to archive the fourth round of seeded changes (kept for the record): reads the one-line results of
the quick checks (/tmp/sc5b.log) and stores every confirmed change with tools/seedstore.py under suffixes j/k/l."""
import os, re, subprocess, sys

LOG = sys.argv[1] if len(sys.argv) > 1 else "/tmp/sc5b.log"
needs = {
 ("C01","1"): "two origins on the same host that differ only by port, the first one with an idle pooled connection: the pool key built from a request loses the port (key.rs, not anchored)",
 ("C01","2"): "tls feature, https request left at HTTP/1.1 against a server that picks h2 by ALPN: the client TLS transport returns before the handshake, the protocol is chosen without the ALPN result (transport/tls.rs, not anchored)",
 ("C01","3"): "auto-detecting server and the first 24 bytes arriving in two reads with a Pending between: ReadVersion forgets the bytes of the first read",
 ("C02","1"): "a waiter queued at the moment a connection whose poll_ready ended in error (upgraded / closed / abandoned) is released: WhenReady::drop pushes without the is_open check",
 ("C02","2"): "a connection type whose is_open means 'not closed' and a second request while the previous response body is unconsumed: WhenReady::poll returns early when is_open is true",
 ("C03","1"): "a transport whose readiness is a reservation (one slot) and a service instance kept alive after ready(): the pool service's poll_ready forwards the transport's, the reservation is never used or released (service.rs poll_ready, not a listed mechanism)",
 ("C03","2"): "a user layer added with Builder::layer that reserves in poll_ready and the Client driven as tower::Service (poll_ready then call): ClientRef::request clones instead of swapping, the readied instance stays parked (client/mod.rs, not anchored)",
 ("C03","3"): "continue_after_preemption = false, an HTTP/2 owner with a waiter, the attempt failing, the failed future kept alive: Checkout::poll returns with `?` before finish_attempt",
 ("C04","1"): "an in-flight HTTP/2 request cancelled: the abandoned-request guard now wraps HTTP/2 too and is_open checks it, the shared connection reports closed and the next request dials (connection.rs, two sites)",
 ("C04","2"): "Client::builder().with_pool(max_idle_per_host = 0) and concurrent HTTP/2 requests during the first dial: the builder drops the pool for that configuration (builder.rs)",
 ("C04","3"): "an HTTP/2 waiter cancelled, or a call future dropped before its first poll: Connector::has_started says yes for a connector that was never polled, a background dial is spawned (connector.rs)",
 ("C05","1"): "request A created but unpolled holds idle c0, the peer closes c0, request B waits while dialing, A is dropped: the checkout's Drop hands back without the is_open guard (checkout.rs)",
 ("C05","2"): "a client built through Client::builder() with a sub-second idle_timeout: the builder normalises with as_secs() > 0 and turns it into 'never expires' (builder.rs)",
 ("C05","3"): ">= 2 idle connections of different ages, the newer closed by the peer, an older one open but expired: the expiry test is only applied to the newest entry (idle.rs)",
 ("C06","1"): "two origins that differ only in scheme with the same effective port (http://h:443 vs https://h): manual UriKey equality over host + effective port drops the scheme (key.rs)",
 ("C06","2"): "more than 1024 distinct origins through one client while an earlier origin's connection is alive: TokenMap starts over at 1024 keys and hands out Token(1) again",
 ("C06","3"): "URIs with userinfo and two ports of one host: the key is derived from the URI without credentials via host(), which also loses the port (service.rs)",
 ("C07","1"): "TLS acceptor, non-auto protocol, a connection whose TLS handshake is unfinished at the signal: TlsStream::poll_shutdown now waits for the handshake (server/conn/tls/mod.rs, not anchored)",
 ("C07","2"): "with_http1(), a client that pipelines two requests in one write, the signal while the first is in its handler: pipeline_flush(true) makes hyper skip the flush of the in-flight response (server/builder.rs, not anchored)",
 ("C07","3"): "with_auto_http() and an HTTP/2 preface split across the signal: the sniff cancellation is ignored once bytes have been read",
 ("C08","1"): "pipelined HTTP/1 requests with a read boundary inside the second one, then a pause or EOF: auto::Builder::new creates the HTTP/1 builder with pipeline_flush(true) (builder default, not anchored)",
 ("C08","2"): "TLS + auto protocol + an answer larger than the transport buffer + keep-alive: Rewind::poll_flush returns Ready without forwarding (rewind.rs Write impl, not the anchored poll_read)",
 ("C08","3"): "a strict prefix of the preface followed by EOF: ReadVersion no longer falls back to HTTP/1 on EOF, the connection is served as HTTP/2",
 ("C09","1"): "TCP acceptor and a client that resets before the server accepts: Braid::info() asks the kernel for peer_addr() and expects it (stream/core.rs, not anchored)",
 ("C09","2"): "duplex acceptor and one client calling connect(0): DuplexStream::new asserts max_buf_size > 0, the accept loop panics",
 ("C09","3"): "a connect polled once and dropped before the accept loop runs, nothing queued behind it: DuplexIncoming::poll_accept returns Pending without a waker registered",
 ("C10","1"): "delay == Some(ZERO), concurrency below the number of candidates, a slow or hanging early candidate: a zero stagger is treated like no stagger (join_next_with_timeout, not anchored)",
 ("C10","2"): "a candidate whose socket set-up fails synchronously in front of one that would accept: `?` in the candidate loop aborts the whole connect",
 ("C10","3"): "a non-default TcpTransportConfig and the getaddrinfo resolver path (what Client::builder().with_tcp(cfg) produces): with_gai_resolver() rebuilds the builder and drops the configuration",
 ("C11","1"): ">= 3 candidates of mixed families with an IPv6 address in front of the first IPv4 one: sort_preferred removes by a shifted index (dns.rs, not anchored)",
 ("C11","2"): "with_config(cfg) before with_gai_resolver(): the configured concurrency and deadline are replaced by the defaults (builder plumbing, not anchored)",
 ("C11","3"): "two attempts in flight, one failing while the other is pending, a candidate queued: the failed slot's successor is pushed back and waits a further stagger delay (process_all)",
 ("C12","1"): "an http request leaves an idle HTTP/1 connection, then a wss request to the same authority: a pool_scheme() helper maps wss to http (key.rs, not anchored)",
 ("C12","2"): "256 distinct origins seen by one client, an early plaintext connection still idle, then an https request to a new origin: TokenMap capped at 256 resets its counter (key.rs, not anchored)",
 ("C12","3"): "tls feature and .with_tls(..) called before .with_body::<..>(): with_body rebuilds the builder with tls: None (builder.rs)",
 ("C13","1"): "a protocol service that is not ready at once and an HTTP/2 request: the version is taken before ready!(poll_ready) and falls back to HTTP/1 (connector.rs, not anchored)",
 ("C13","2"): "an HTTP/2-versioned request that ends up on an HTTP/1.1 connection (pooled idle connection): SetHostHeaderLayer moved above the pool layer decides on the request version, no Host is set (builder.rs layer order)",
 ("C13","3"): "a root or empty path together with a query: origin_form compares path() instead of the whole path-and-query, the query is dropped",
 ("C14","1"): "a Protocol whose poll_ready is pending and a pre-emption or cancellation in exactly that window: has_started forgets the PollReadyHandshake state (connector.rs, not anchored)",
 ("C14","2"): "HTTP/1.1 and HTTP/2 mixed on one origin: the end of a multiplexed attempt removes the whole waiter queue, also requests that dial on their own (cancel_connection)",
 ("C14","3"): "an HTTP/2 request released from someone else's attempt that now dials itself: the Released -> Join::Connect arm no longer installs the waiter, freed connections are not seen",
 ("C15","1"): "an idle connection popped by an unpolled call future, other releases refill the list, the future is dropped: the checkout's Drop inserts straight into the idle list (checkout.rs)",
 ("C15","2"): "idle_timeout = Some(ZERO) with a configured limit below 32: PoolInner::new normalises the timeout with `..Default::default()` and loses max_idle_per_host",
 ("C15","3"): "max_idle_per_host = 0: the purge and the limit check only run when a list already exists, the first released connection of an origin is kept",
 ("C16","1"): "more addresses than happy_eyeballs_concurrency: the initial batch is split off the tail of the queue (happy_eyeballs.rs, not anchored)",
 ("C16","2"): "both local addresses bound and a resolver answer with both families: IpVersion::from_binding prefers IPv4 (config plumbing in dns.rs that the hook bypasses)",
 ("C16","3"): "both families present and the first two addresses of the same family: swap_remove_front reorders the rest",
 ("C17","1"): "an HTTP/2 connection, a Connection header with several values the first of which is not visible ASCII, a stack without Http2ChecksLayer: the guard checks all() instead of any value (connection.rs)",
 ("C17","2"): "pool Config::idle_timeout = Some(Duration::MAX) and a second request to the origin: `Instant::now() - timeout` overflows (idle.rs)",
 ("C17","3"): "Version::HTTP_09 through any entry point; two cooperating hunks (from_version maps 0.9 to Http1; the HTTP/1 branch rewrites the version only when above 1.1): hyper's encoder panics",
 ("C18","1"): "the first read returns a proper prefix of the HTTP/2 preface and the next read is Pending: ReadVersion saves the fill level only after the loop (auto.rs, not anchored)",
 ("C18","2"): "TLS on the client stream and a write+flush larger than the transport accepts at once, then waiting for the peer: client TlsStream::poll_flush flushes the transport instead of the TLS session (client/conn/stream/tls.rs, not anchored)",
 ("C18","3"): "a half-close through TokioIo<T: hyper::rt::Write> while the object is kept for reading: poll_shutdown calls poll_flush",
 ("C19","1"): "with_timeout(Duration::ZERO) and an inner call that is pending on its first poll: the builder filters a zero duration, the request never times out (builder.rs)",
 ("C19","2"): "a redirect policy together with a timeout, every hop faster than the timeout and the chain slower: the redirect layer now wraps the timeout layer (builder.rs)",
 ("C19","3"): "HTTP/2 on a cold pool, continue_after_preemption = false, A times out while dialing, B (released) dials and times out as well: the released waiter forgets that it owns the attempt, the connecting mark stays",
 ("C20","1"): "a TLS client that sends no server name and negotiates no ALPN: TlsConnection::call attaches the info only if it differs from the default, ValidateSNI sees a plain request (server/conn/tls/info.rs, not anchored)",
 ("C20","2"): "two requests of one connection both see Pending under the read lock (first HTTP/2 streams on a multi-thread runtime): the second check under the write lock is gone, the loser gets no TLS info (info/tls.rs channel)",
 ("C20","3"): "an HTTP/1.x request in absolute form or a CONNECT whose target authority differs from its Host header: the host to validate is taken from the URI authority for every version",
}
how = {
 ("C01","2"): "MISSED at first (HTTP/2-only TLS servers only got HTTP/2-versioned requests); caught after sending them HTTP/1.1-versioned requests as well: ",
 ("C03","1"): "MISSED at first (every transport was always ready, every service instance was dropped by oneshot right after call); caught after adding worlds whose transport readiness is a reservation of 1-2 slots and requests that keep the readied service alive: ",
 ("C03","2"): "MISSED at first (no engine used the public Client type); caught by the new clientapi engine: ",
 ("C03","3"): "MISSED at first (the stepper dropped every resolved future at once); caught after keeping resolved futures alive in some scenarios: ",
 ("C04","1"): "MISSED at first (the PoolLab has its own connection type, HttpConnection is only in the e2e engines, which did not count dials); caught after adding the dial accounting per HTTP/2 origin and round to the traffic engine: ",
 ("C04","2"): "MISSED at first (same reason); caught by the traffic dial accounting: ",
 ("C05","2"): "MISSED at first (no engine gave the builder a sub-second idle_timeout); caught by the new clientapi engine: ",
 ("C07","1"): "MISSED at first (the shutdown sweep had no TLS acceptor); caught after adding TLS acceptor cases: ",
 ("C08","2"): "MISSED at first (the sniff engine never sat behind TLS); caught after adding the server-level differential behind the TLS acceptor: ",
 ("C10","1"): "MISSED at first by C10 (C11 reported the pacing, C10 only compared results when the starts agreed); caught after judging 'no success although a candidate accepts in time' also when the pacing differs: ",
 ("C10","3"): "first run INCONCLUSIVE (the 8 s watchdog of the black-hole trial); now three runs in a row still pending after 8 s with a 300 ms deadline configured are a verdict: ",
 ("C11","1"): "MISSED at first (public order trials were IPv4 only); caught after adding mixed-family order trials: ",
 ("C11","2"): "first run INCONCLUSIVE (watchdog), see C10l: ",
 ("C12","2"): "MISSED at first (no sequence touched hundreds of origins); caught after adding the key-table pressure sequences (1300 new origins behind one idle connection): ",
 ("C12","3"): "MISSED at first (the harness always called with_body before with_tls); caught after varying the builder call order: ",
 ("C13","2"): "MISSED at first (no HTTP/2-versioned request ever rode a pooled HTTP/1 connection in the C13 engines); caught after the traffic engine started to judge Host / :authority as seen by the servers: ",
 ("C14","1"): "MISSED at first (the lab's protocol service was always ready); caught after making it not ready at once and adding the rule for an attempt dropped between connect and handshake: ",
 ("C17","1"): "MISSED at first (header sets had one value per name); caught after adding repeated connection-specific headers: ",
 ("C17","2"): "MISSED at first (default pool configuration only, one request per case); caught after adding edge pool configurations with three requests in a row: ",
 ("C18","2"): "MISSED at first (TLS streams were only checked by the e2e engines with whole-message traffic); caught after adding the TLS stream pair ping-pong over small pipes: ",
 ("C19","1"): "MISSED at first (timeouts of 1 s and 10 s only); caught after adding a zero timeout to the deadline engine: ",
 ("C20","1"): "MISSED at first (every e2e TLS connection negotiated ALPN); caught after adding connections with neither server name nor ALPN: ",
}
log = {}
for l in open(LOG):
    m = re.match(r"(C\d\d)/(\d) (CAUGHT|MISSED|INCONCLUSIVE)(?: # C\d\d violation \[([^\]]*)\]?)?", l)
    if m:
        log[(m.group(1), m.group(2))] = (m.group(3), (m.group(4) or "").strip())
suffix = {"1": "j", "2": "k", "3": "l"}
env = dict(os.environ, SEEDROOT="/tmp/seed5")
bad = 0
for key in sorted(needs):
    st, sig = log.get(key, ("?", ""))
    if st != "CAUGHT":
        print("NOT CAUGHT", key, st)
        bad += 1
        continue
    pid, n = key
    caught = how.get(key, "caught by ") + f"{pid} quick: {sig[:150]}"
    r = subprocess.run(["python3", "/verif/tools/seedstore.py", pid, n, suffix[n], needs[key], caught], env=env, capture_output=True, text=True)
    print(r.stdout.strip(), r.stderr.strip()[:200])
sys.exit(1 if bad else 0)
