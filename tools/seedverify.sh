#!/bin/bash
# usage: [WTROOT=/tmp/wt2 SEEDROOT=/tmp/seed2] [FEATURES=a,b] [TESTUTIL=1] tools/seedverify.sh <ID> <n>   -- independently confirm a seeded change in its scratch worktree
# TESTUTIL=1 adds tokio's "test-util" feature to the dev-dependency (demonstrations that use a paused clock); the 73-test
# suite is run on the pristine Cargo.toml without the demonstration.
ID=$1; N=$2
WT=${WTROOT:-/tmp/wt}/$ID; S=${SEEDROOT:-/tmp/seed}/$ID
cd $WT || exit 2
git checkout -q -- . ; git clean -fdq tests src 2>/dev/null
rm -f tests/seeded_demo*.rs tests/seeded-demo*.rs
cp $S/demo$N.rs tests/seeded_demo$N.rs
if [ -n "$TESTUTIL" ]; then
  python3 - <<'PY'
import re
s=open('Cargo.toml').read()
i=s.index('[dev-dependencies]')
head,tail=s[:i],s[i:]
tail=re.sub(r'(?m)^tokio = \{[^}]*\}', 'tokio = { version = "1", features = ["full", "test-util"] }', tail, count=1)
if 'test-util' not in tail:
    tail=tail.replace('[dev-dependencies]\n','[dev-dependencies]\ntokio = { version = "1", features = ["full", "test-util"] }\n',1)
open('Cargo.toml','w').write(head+tail)
PY
fi
echo "--- demo WITHOUT patch (expect pass)"
cargo test --offline ${FEATURES:+--features $FEATURES} --test seeded_demo$N 2>&1 | grep -E "^test result|error\[|error:|FAILED|panicked" | head -5
git apply $S/patch$N.diff || { echo "PATCH DOES NOT APPLY"; exit 2; }
echo "--- demo WITH patch (expect failure)"
cargo test --offline ${FEATURES:+--features $FEATURES} --test seeded_demo$N 2>&1 | grep -E "^test result|error\[|error:|FAILED|panicked" | head -5
rm -f tests/seeded_demo$N.rs; git checkout -q -- Cargo.toml Cargo.lock 2>/dev/null
echo "--- builds WITH patch"
cargo build --offline 2>&1 | grep -E "^error|Finished" | tail -1
cargo build --offline --features verif-hooks,tls,tls-ring,sni 2>&1 | grep -E "^error|Finished" | tail -1
echo "--- 73-test suite WITH patch (pristine Cargo.toml, no demonstration)"
git status --short | head -5
cargo nextest run --workspace --no-fail-fast --offline 2>&1 | grep -E "Summary|FAIL " | head -5
git checkout -q -- . ; rm -f tests/seeded_demo*.rs
