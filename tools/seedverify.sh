#!/bin/bash
# usage: [FEATURES=a,b] tools/seedverify.sh <ID> <n>   -- independently confirm a seeded change in its scratch worktree
ID=$1; N=$2
WT=/tmp/wt/$ID; S=/tmp/seed/$ID
cd $WT || exit 2
git checkout -q -- . ; git clean -fdq tests src Cargo.toml 2>/dev/null
rm -f tests/seeded_demo*.rs
cp $S/demo$N.rs tests/seeded_demo$N.rs
echo "--- demo WITHOUT patch (expect pass)"
cargo test --offline ${FEATURES:+--features $FEATURES} --test seeded_demo$N 2>&1 | grep -E "^test result|error\[|error:|FAILED|panicked" | head -5
git apply $S/patch$N.diff || { echo "PATCH DOES NOT APPLY"; exit 2; }
echo "--- builds WITH patch"
cargo build --offline 2>&1 | grep -E "^error|Finished" | tail -1
cargo build --offline --features verif-hooks,tls,tls-ring,sni 2>&1 | grep -E "^error|Finished" | tail -1
mv tests/seeded_demo$N.rs /tmp/seeded_demo_${ID}_${N}.rs
echo "--- 73-test suite WITH patch"
cargo nextest run --workspace --no-fail-fast --offline 2>&1 | grep -E "Summary|FAIL " | head -5
mv /tmp/seeded_demo_${ID}_${N}.rs tests/seeded_demo$N.rs
echo "--- demo WITH patch (expect failure)"
cargo test --offline ${FEATURES:+--features $FEATURES} --test seeded_demo$N 2>&1 | grep -E "^test result|error\[|error:|FAILED|panicked" | head -5
git checkout -q -- . ; rm -f tests/seeded_demo*.rs
