#!/usr/bin/env python3
import json,sys,re
r=json.load(open(sys.argv[1]))
full = len(sys.argv)>2
print("wall_s",r.get("wall_s"))
for pid,p in r["props"].items():
    print(f"== {pid}: evals={p['evaluations']} distinct={p['distinct_nontrivial']} inconclusive={len(p['inconclusive'])}")
    for k,v in sorted(p["violation_counts"].items()):
        print(f"   {v:8d}  {k}")
    if full:
        seen=set()
        for v in p["violations"]:
            if v["signature"] in seen: continue
            seen.add(v["signature"])
            m=v["message"]
            if "minimised witness:" in m:
                head=m.split(" | ")[0]
                mn=m.split("minimised witness: ")[1]
                cfg=v["replay"].get("cfg",{})
                c=f"cont={cfg.get('continue_after_preemption')} idle_to={cfg.get('idle_timeout_ms')} max_idle={cfg.get('max_idle_per_host')} origins={[o['uri']+('*' if o['alpn_h2'] else '') for o in cfg.get('origins',[])]} fail_dials={v['replay'].get('fail_dials')} fail_hs={v['replay'].get('fail_hs')}"
                ops=mn.split(" ops: ")[1]
                print(f"  * {v['signature']}\n      {head[:300]}\n      {c}\n      OPS: {ops}")
            else:
                print("  *", v["signature"], "::", m[:700])
