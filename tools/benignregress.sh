#!/bin/bash
# usage: tools/benignregress.sh [ids...] -- every archived property-preserving change against the quick check of the
# property it preserves: must stay QUIET. /repo must be clean.
cd /verif
ids="$@"; [ -z "$ids" ] && ids=$(ls benign)
for id in $ids; do
  prop=${id:0:3}
  tools/benigncheck.sh /verif/benign/$id/patch.diff $prop 2>&1 | sed "s|^benign/||" | cut -c1-300
done
