#!/bin/bash
# usage: tools/seedregress.sh [ids...]  -- re-run the quick check of every archived seeded change against /repo with the
# patch applied (and undone); prints one line per change: CAUGHT / MISSED / INCONCLUSIVE. /repo must be clean.
cd /verif
ids="$@"; [ -z "$ids" ] && ids=$(ls seeded)
for id in $ids; do
  prop=${id:0:3}
  git -C /repo diff --quiet || { echo "/repo is dirty"; exit 2; }
  git -C /repo apply /verif/seeded/$id/patch.diff 2>/dev/null || { echo "$id PATCH-DOES-NOT-APPLY"; continue; }
  out=$(timeout 2400 ./check $prop --tier quick 2>&1)
  git -C /repo checkout -- .
  if echo "$out" | grep -q "^VIOLATION"; then echo "$id CAUGHT $(echo "$out" | grep -m1 '^# ' | cut -c1-160)";
  elif echo "$out" | grep -q "^INCONCLUSIVE"; then echo "$id INCONCLUSIVE $(echo "$out" | grep -m1 '^INCONCLUSIVE' | cut -c1-160)";
  else echo "$id MISSED"; fi
done
git -C /verif checkout replays evidence 2>/dev/null; git -C /verif clean -fq replays
