#!/usr/bin/env python3
"""Store a confirmed seeded change under /verif/seeded/<id>/ : tools/seedstore.py C05 1 a "needs..." "caught-by..." """
import json, os, shutil, sys, subprocess
pid, n, suffix, needs, caught = sys.argv[1:6]
extra = sys.argv[6] if len(sys.argv) > 6 else ""
src = os.environ.get("SEEDROOT", "/tmp/seed") + f"/{pid}"
dst = f"/verif/seeded/{pid}{suffix}"
os.makedirs(dst, exist_ok=True)
shutil.copy(f"{src}/patch{n}.diff", f"{dst}/patch.diff")
shutil.copy(f"{src}/demo{n}.rs", f"{dst}/demo.rs")
notes = open(f"{src}/NOTES.md").read()
open(f"{dst}/AGENT_NOTES.md", "w").write(notes)
head = subprocess.run(["git", "-C", "/repo", "rev-parse", "--short", "HEAD"], capture_output=True, text=True).stdout.strip()
meta = {
    "seeded_id": f"{pid}{suffix}",
    "breaks_property": pid,
    "produced_by": "independent sub-agent given only the property record and a scratch worktree of /repo",
    "base_commit": head,
    "needs_to_manifest": needs,
    "confirmed_by_me": [
        "scratch worktree <wtroot>/%s reset to HEAD; demo placed at tests/seeded_demo%s.rs (auto-discovered integration test)" % (pid, n),
        "cargo test --offline --test seeded_demo%s WITHOUT the patch: all demo tests pass" % n,
        "git apply patch.diff; cargo build --offline and cargo build --offline --features verif-hooks,tls,tls-ring,sni: both succeed",
        "cargo nextest run --workspace --no-fail-fast --offline WITH the patch (demo moved out): 73 passed",
        "cargo test --offline --test seeded_demo%s WITH the patch: demo fails" % n,
        "git -C /repo apply patch.diff; ./check <prop> --tier quick; git -C /repo checkout -- .",
    ],
    "quick_checks_result": caught,
    "notes": extra,
}
json.dump(meta, open(f"{dst}/meta.json", "w"), indent=1)
print("stored", dst)
